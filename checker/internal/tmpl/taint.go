package tmpl

import (
	"fmt"
	"go/ast"
	"go/token"
	"go/types"
	"sort"
	"strings"

	"golang.org/x/tools/go/packages"

	"verif/checker/internal/core"
)

// argsFlow decides, for the plugin's main package, that the command line (os.Args) reaches nothing but diagnostics:
// every value derived from it ends in len(), in a comparison that guards an error exit, in a write to os.Stderr / the
// log package / panic / os.Exit, or is discarded. Flow-insensitive over local variables and parameters of the
// package's own functions; anything else (stored in a structure, handed to another package, compared in a condition
// that lets generation go on) is reported with the construct it flows into.
type argsFlow struct {
	p       *packages.Package
	parent  map[ast.Node]ast.Node
	tainted map[types.Object]bool
	funcs   map[types.Object]*ast.FuncDecl
	retTaint map[types.Object]map[int]bool // function -> tainted result indexes
	bad     map[string]token.Pos
	changed bool
}

func runArgsFlow(c *core.Ctx, p *packages.Package, rel, src string) {
	a := &argsFlow{p: p, parent: map[ast.Node]ast.Node{}, tainted: map[types.Object]bool{}, funcs: map[types.Object]*ast.FuncDecl{},
		retTaint: map[types.Object]map[int]bool{}, bad: map[string]token.Pos{}}
	for _, f := range p.Syntax {
		var stack []ast.Node
		ast.Inspect(f, func(n ast.Node) bool {
			if n == nil {
				stack = stack[:len(stack)-1]
				return true
			}
			if len(stack) > 0 {
				a.parent[n] = stack[len(stack)-1]
			}
			stack = append(stack, n)
			return true
		})
		for _, d := range f.Decls {
			if fd, ok := d.(*ast.FuncDecl); ok {
				if o := p.TypesInfo.Defs[fd.Name]; o != nil {
					a.funcs[o] = fd
				}
			}
		}
	}
	// sources
	var srcs []ast.Expr
	for _, f := range p.Syntax {
		ast.Inspect(f, func(n ast.Node) bool {
			if sel, ok := n.(*ast.SelectorExpr); ok {
				if o := p.TypesInfo.Uses[sel.Sel]; o != nil && o.Pkg() != nil && o.Pkg().Path() == "os" && o.Name() == "Args" {
					srcs = append(srcs, sel)
				}
			}
			return true
		})
	}
	if len(srcs) == 0 {
		c.Ok("T.pure", rel+" command line", "os.Args is not referenced", "", src)
		return
	}
	for round := 0; round < 20; round++ {
		a.changed = false
		a.bad = map[string]token.Pos{}
		for _, s := range srcs {
			a.follow(s)
		}
		for _, f := range p.Syntax {
			ast.Inspect(f, func(n ast.Node) bool {
				switch t := n.(type) {
				case *ast.Ident:
					if o := p.TypesInfo.Uses[t]; o != nil && a.tainted[o] && !a.isAssignTarget(t) {
						a.follow(t)
					}
				case *ast.CallExpr:
					// calls of package functions whose results carry the command line
					if o := a.callee(t); o != nil && len(a.retTaint[o]) > 0 {
						a.followCallResult(t, a.retTaint[o])
					}
				}
				return true
			})
		}
		if !a.changed {
			break
		}
	}
	if len(a.bad) == 0 {
		c.Ok("T.pure", rel+" command line", fmt.Sprintf("%d reference(s) to os.Args; every derived value ends in len(), an error-exit guard, a diagnostic (os.Stderr, log, panic, os.Exit) or is discarded", len(srcs)), c.PosStr(p.Fset, srcs[0].Pos()), src)
		return
	}
	var ks []string
	for k := range a.bad {
		ks = append(ks, k)
	}
	sort.Strings(ks)
	for _, k := range ks {
		c.Fail("T.pure", rel+" command line flows into "+k, "a value derived from os.Args (command line / binary name) reaches something other than a diagnostic; the response would not be a pure function of the request", c.PosStr(p.Fset, a.bad[k]), src)
	}
}

func (a *argsFlow) isAssignTarget(id *ast.Ident) bool {
	switch t := a.parent[id].(type) {
	case *ast.AssignStmt:
		for _, l := range t.Lhs {
			if l == ast.Expr(id) {
				return true
			}
		}
	case *ast.ValueSpec:
		for _, n := range t.Names {
			if n == id {
				return true
			}
		}
	}
	return false
}

func (a *argsFlow) callee(call *ast.CallExpr) types.Object {
	switch f := ast.Unparen(call.Fun).(type) {
	case *ast.Ident:
		if o := a.p.TypesInfo.Uses[f]; o != nil && a.funcs[o] != nil {
			return o
		}
	case *ast.SelectorExpr:
		if o := a.p.TypesInfo.Uses[f.Sel]; o != nil && a.funcs[o] != nil {
			return o
		}
	}
	return nil
}

func (a *argsFlow) taint(o types.Object) {
	if o != nil && !a.tainted[o] {
		a.tainted[o] = true
		a.changed = true
	}
}

func (a *argsFlow) report(what string, pos token.Pos) {
	if _, ok := a.bad[what]; !ok {
		a.bad[what] = pos
	}
}

func qualOf(info *types.Info, fun ast.Expr) string {
	switch f := ast.Unparen(fun).(type) {
	case *ast.Ident:
		if o := info.Uses[f]; o != nil {
			if _, isB := o.(*types.Builtin); isB {
				return "builtin." + o.Name()
			}
			if o.Pkg() != nil {
				return o.Pkg().Path() + "." + o.Name()
			}
		}
	case *ast.SelectorExpr:
		if o := info.Uses[f.Sel]; o != nil && o.Pkg() != nil {
			if fn, ok := o.(*types.Func); ok {
				return fn.FullName()
			}
			return o.Pkg().Path() + "." + o.Name()
		}
	}
	return types.ExprString(fun)
}

func (a *argsFlow) terminates(b *ast.BlockStmt) bool {
	if b == nil || len(b.List) == 0 {
		return false
	}
	switch t := b.List[len(b.List)-1].(type) {
	case *ast.BlockStmt:
		return a.terminates(t)
	case *ast.ReturnStmt:
		return true
	case *ast.BranchStmt:
		// the inliner turns `return` into a break out of the labelled block that stands for the call
		return t.Tok == token.BREAK && t.Label != nil && strings.HasPrefix(t.Label.Name, "__inl")
	case *ast.ExprStmt:
		if call, ok := t.X.(*ast.CallExpr); ok {
			q := qualOf(a.p.TypesInfo, call.Fun)
			return q == "builtin.panic" || q == "os.Exit" || strings.HasPrefix(q, "log.Fatal") || strings.HasPrefix(q, "log.Panic")
		}
	}
	return false
}

func (a *argsFlow) isStderr(e ast.Expr) bool {
	if sel, ok := ast.Unparen(e).(*ast.SelectorExpr); ok {
		if o := a.p.TypesInfo.Uses[sel.Sel]; o != nil && o.Pkg() != nil && o.Pkg().Path() == "os" && o.Name() == "Stderr" {
			return true
		}
	}
	return false
}

// follow climbs from a tainted expression to the construct that consumes it.
func (a *argsFlow) follow(n ast.Node) {
	info := a.p.TypesInfo
	for {
		p := a.parent[n]
		switch t := p.(type) {
		case *ast.ParenExpr, *ast.StarExpr, *ast.UnaryExpr, *ast.SliceExpr, *ast.IndexExpr, *ast.TypeAssertExpr:
			n = p
			continue
		case *ast.SelectorExpr:
			if t.X == n {
				n = p
				continue
			}
			return
		case *ast.BinaryExpr:
			n = p
			continue
		case *ast.CallExpr:
			if ast.Unparen(t.Fun) == n {
				n = p // a method of a tainted value: its result is tainted
				continue
			}
			q := qualOf(info, t.Fun)
			if tv, ok := info.Types[t.Fun]; ok && tv.IsType() {
				n = p
				continue
			}
			idx := -1
			for i, x := range t.Args {
				if x == n {
					idx = i
				}
			}
			switch {
			case q == "builtin.len" || q == "builtin.cap":
				n = p
				continue
			case q == "builtin.panic" || q == "builtin.print" || q == "builtin.println" || q == "os.Exit" || strings.HasPrefix(q, "log."):
				return
			case (q == "fmt.Fprintf" || q == "fmt.Fprint" || q == "fmt.Fprintln") && idx > 0 && a.isStderr(t.Args[0]):
				return
			case q == "fmt.Sprintf" || q == "fmt.Sprint" || q == "fmt.Sprintln" || q == "fmt.Errorf" || q == "errors.New" ||
				strings.HasPrefix(q, "strings.") || strings.HasPrefix(q, "path/filepath.Base") || strings.HasPrefix(q, "path.Base") || strings.HasPrefix(q, "strconv."):
				n = p
				continue
			}
			if o := a.callee(t); o != nil && idx >= 0 {
				fd := a.funcs[o]
				k := 0
				done := false
				for _, fl := range fd.Type.Params.List {
					for _, nm := range fl.Names {
						if k == idx {
							if _, variadic := fl.Type.(*ast.Ellipsis); !variadic {
								a.taint(info.Defs[nm])
								done = true
							}
						}
						k++
					}
				}
				if done {
					return
				}
			}
			a.report("a call of "+q, t.Pos())
			return
		case *ast.IfStmt:
			if t.Cond == n {
				if a.terminates(t.Body) {
					return
				}
				a.report("a condition that does not end the run", t.Pos())
			}
			return
		case *ast.AssignStmt:
			for i, r := range t.Rhs {
				if r != n {
					continue
				}
				if len(t.Lhs) == len(t.Rhs) {
					a.assignTo(t.Lhs[i], t.Pos())
				} else {
					for _, l := range t.Lhs {
						a.assignTo(l, t.Pos())
					}
				}
			}
			return
		case *ast.ValueSpec:
			for _, nm := range t.Names {
				a.taint(info.Defs[nm])
			}
			return
		case *ast.RangeStmt:
			if t.X == n {
				for _, e := range []ast.Expr{t.Key, t.Value} {
					if e != nil {
						a.assignTo(e, t.Pos())
					}
				}
			}
			return
		case *ast.ReturnStmt:
			// which function, which result
			var fd *ast.FuncDecl
			for q := ast.Node(t); q != nil; q = a.parent[q] {
				if f, ok := q.(*ast.FuncDecl); ok {
					fd = f
					break
				}
				if _, ok := q.(*ast.FuncLit); ok {
					a.report("the result of a function literal", t.Pos())
					return
				}
			}
			if fd == nil {
				return
			}
			o := info.Defs[fd.Name]
			for i, r := range t.Results {
				if r == n {
					if a.retTaint[o] == nil {
						a.retTaint[o] = map[int]bool{}
					}
					if !a.retTaint[o][i] {
						a.retTaint[o][i] = true
						a.changed = true
					}
				}
			}
			if fd.Name.Name == "main" {
				return
			}
			return
		case *ast.ExprStmt:
			return
		case nil:
			return
		default:
			a.report(fmt.Sprintf("%T", p), p.Pos())
			return
		}
	}
}

func (a *argsFlow) assignTo(l ast.Expr, pos token.Pos) {
	if id, ok := ast.Unparen(l).(*ast.Ident); ok {
		if id.Name == "_" {
			return
		}
		a.taint(a.p.TypesInfo.ObjectOf(id))
		return
	}
	a.report("a store into "+types.ExprString(l), pos)
}

// followCallResult: the call returns tainted values at the given result indexes.
func (a *argsFlow) followCallResult(call *ast.CallExpr, idx map[int]bool) {
	switch t := a.parent[call].(type) {
	case *ast.AssignStmt:
		if len(t.Rhs) == 1 && len(t.Lhs) > 1 {
			for i, l := range t.Lhs {
				if idx[i] {
					a.assignTo(l, t.Pos())
				}
			}
			return
		}
	case *ast.ExprStmt:
		return
	}
	if idx[0] {
		a.follow(call)
	}
}
