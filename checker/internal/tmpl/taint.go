package tmpl

import (
	"fmt"
	"go/ast"
	"go/constant"
	"go/token"
	"go/types"
	"sort"
	"strings"

	"golang.org/x/tools/go/cfg"
	"golang.org/x/tools/go/packages"

	"verif/checker/internal/core"
)

// argsFlow decides, for the plugin's main package, that the command line (os.Args) reaches nothing but diagnostics:
// every value derived from it ends in len(), in a comparison that guards an error exit, in a write to os.Stderr / the
// log package / panic / os.Exit, or is discarded. Flow-insensitive over local variables and parameters of the
// package's own functions; anything else (stored in a structure, handed to another package, compared in a condition
// that lets generation go on) is reported with the construct it flows into.
type argsFlow struct {
	p       *packages.Package
	parent  map[ast.Node]ast.Node
	tainted map[types.Object]bool
	funcs   map[types.Object]*ast.FuncDecl
	retTaint map[types.Object]map[int]bool // function -> tainted result indexes
	bad     map[string]token.Pos
	changed bool
	gates   map[*ast.FuncDecl]bool
}

func runArgsFlow(c *core.Ctx, p *packages.Package, rel, src string) {
	a := &argsFlow{p: p, parent: map[ast.Node]ast.Node{}, tainted: map[types.Object]bool{}, funcs: map[types.Object]*ast.FuncDecl{},
		retTaint: map[types.Object]map[int]bool{}, bad: map[string]token.Pos{}, gates: gateFuncs(p)}
	for _, f := range p.Syntax {
		var stack []ast.Node
		ast.Inspect(f, func(n ast.Node) bool {
			if n == nil {
				stack = stack[:len(stack)-1]
				return true
			}
			if len(stack) > 0 {
				a.parent[n] = stack[len(stack)-1]
			}
			stack = append(stack, n)
			return true
		})
		for _, d := range f.Decls {
			if fd, ok := d.(*ast.FuncDecl); ok {
				if o := p.TypesInfo.Defs[fd.Name]; o != nil {
					a.funcs[o] = fd
				}
			}
		}
	}
	// sources
	var srcs []ast.Expr
	for _, f := range p.Syntax {
		ast.Inspect(f, func(n ast.Node) bool {
			if sel, ok := n.(*ast.SelectorExpr); ok {
				if o := p.TypesInfo.Uses[sel.Sel]; o != nil && o.Pkg() != nil && o.Pkg().Path() == "os" && o.Name() == "Args" {
					srcs = append(srcs, sel)
				}
			}
			return true
		})
	}
	if len(srcs) == 0 {
		c.Ok("T.pure", rel+" command line", "os.Args is not referenced", "", src)
		return
	}
	for round := 0; round < 20; round++ {
		a.changed = false
		a.bad = map[string]token.Pos{}
		for _, s := range srcs {
			a.follow(s)
		}
		for _, f := range p.Syntax {
			ast.Inspect(f, func(n ast.Node) bool {
				switch t := n.(type) {
				case *ast.Ident:
					if o := p.TypesInfo.Uses[t]; o != nil && a.tainted[o] && !a.isAssignTarget(t) {
						a.follow(t)
					}
				case *ast.CallExpr:
					// calls of package functions whose results carry the command line
					if o := a.callee(t); o != nil && len(a.retTaint[o]) > 0 {
						a.followCallResult(t, a.retTaint[o])
					}
				}
				return true
			})
		}
		if !a.changed {
			break
		}
	}
	if len(a.bad) == 0 {
		c.Ok("T.pure", rel+" command line", fmt.Sprintf("%d reference(s) to os.Args; every derived value ends in len(), an error-exit guard, a diagnostic (os.Stderr, log, panic, os.Exit) or is discarded", len(srcs)), c.PosStr(p.Fset, srcs[0].Pos()), src)
		return
	}
	var ks []string
	for k := range a.bad {
		ks = append(ks, k)
	}
	sort.Strings(ks)
	for _, k := range ks {
		c.Fail("T.pure", rel+" command line flows into "+k, "a value derived from os.Args (command line / binary name) reaches something other than a diagnostic; the response would not be a pure function of the request", c.PosStr(p.Fset, a.bad[k]), src)
	}
}

func (a *argsFlow) isAssignTarget(id *ast.Ident) bool {
	switch t := a.parent[id].(type) {
	case *ast.AssignStmt:
		for _, l := range t.Lhs {
			if l == ast.Expr(id) {
				return true
			}
		}
	case *ast.ValueSpec:
		for _, n := range t.Names {
			if n == id {
				return true
			}
		}
	}
	return false
}

func (a *argsFlow) callee(call *ast.CallExpr) types.Object {
	switch f := ast.Unparen(call.Fun).(type) {
	case *ast.Ident:
		if o := a.p.TypesInfo.Uses[f]; o != nil && a.funcs[o] != nil {
			return o
		}
	case *ast.SelectorExpr:
		if o := a.p.TypesInfo.Uses[f.Sel]; o != nil && a.funcs[o] != nil {
			return o
		}
	}
	return nil
}

func (a *argsFlow) taint(o types.Object) {
	if o != nil && !a.tainted[o] {
		a.tainted[o] = true
		a.changed = true
	}
}

func (a *argsFlow) report(what string, pos token.Pos) {
	if _, ok := a.bad[what]; !ok {
		a.bad[what] = pos
	}
}

func qualOf(info *types.Info, fun ast.Expr) string {
	switch f := ast.Unparen(fun).(type) {
	case *ast.Ident:
		if o := info.Uses[f]; o != nil {
			if _, isB := o.(*types.Builtin); isB {
				return "builtin." + o.Name()
			}
			if o.Pkg() != nil {
				return o.Pkg().Path() + "." + o.Name()
			}
		}
	case *ast.SelectorExpr:
		if o := info.Uses[f.Sel]; o != nil && o.Pkg() != nil {
			if fn, ok := o.(*types.Func); ok {
				return fn.FullName()
			}
			return o.Pkg().Path() + "." + o.Name()
		}
	}
	return types.ExprString(fun)
}

func (a *argsFlow) terminates(b *ast.BlockStmt) bool {
	if b == nil || len(b.List) == 0 {
		return false
	}
	switch t := b.List[len(b.List)-1].(type) {
	case *ast.BlockStmt:
		return a.terminates(t)
	case *ast.ReturnStmt:
		return true
	case *ast.BranchStmt:
		// the inliner turns `return` into a break out of the labelled block that stands for the call
		return t.Tok == token.BREAK && t.Label != nil && strings.HasPrefix(t.Label.Name, "__inl")
	case *ast.ExprStmt:
		if call, ok := t.X.(*ast.CallExpr); ok {
			q := qualOf(a.p.TypesInfo, call.Fun)
			return q == "builtin.panic" || q == "os.Exit" || strings.HasPrefix(q, "log.Fatal") || strings.HasPrefix(q, "log.Panic")
		}
	}
	return false
}

func (a *argsFlow) isStderr(e ast.Expr) bool {
	if sel, ok := ast.Unparen(e).(*ast.SelectorExpr); ok {
		if o := a.p.TypesInfo.Uses[sel.Sel]; o != nil && o.Pkg() != nil && o.Pkg().Path() == "os" && o.Name() == "Stderr" {
			return true
		}
	}
	return false
}

// follow climbs from a tainted expression to the construct that consumes it.
func (a *argsFlow) follow(n ast.Node) {
	info := a.p.TypesInfo
	for {
		p := a.parent[n]
		switch t := p.(type) {
		case *ast.ParenExpr, *ast.StarExpr, *ast.UnaryExpr, *ast.SliceExpr, *ast.IndexExpr, *ast.TypeAssertExpr:
			n = p
			continue
		case *ast.SelectorExpr:
			if t.X == n {
				n = p
				continue
			}
			return
		case *ast.BinaryExpr:
			n = p
			continue
		case *ast.CallExpr:
			if ast.Unparen(t.Fun) == n {
				n = p // a method of a tainted value: its result is tainted
				continue
			}
			q := qualOf(info, t.Fun)
			if tv, ok := info.Types[t.Fun]; ok && tv.IsType() {
				n = p
				continue
			}
			idx := -1
			for i, x := range t.Args {
				if x == n {
					idx = i
				}
			}
			switch {
			case q == "builtin.len" || q == "builtin.cap":
				n = p
				continue
			case q == "builtin.panic" || q == "builtin.print" || q == "builtin.println" || q == "os.Exit" || strings.HasPrefix(q, "log."):
				return
			case (q == "fmt.Fprintf" || q == "fmt.Fprint" || q == "fmt.Fprintln") && idx > 0 && a.isStderr(t.Args[0]):
				return
			case q == "fmt.Sprintf" || q == "fmt.Sprint" || q == "fmt.Sprintln" || q == "fmt.Errorf" || q == "errors.New" ||
				strings.HasPrefix(q, "strings.") || strings.HasPrefix(q, "path/filepath.Base") || strings.HasPrefix(q, "path.Base") || strings.HasPrefix(q, "strconv."):
				n = p
				continue
			}
			if o := a.callee(t); o != nil && idx >= 0 {
				fd := a.funcs[o]
				// an informational mode (--version, --help): the gate has no effect unless it returns true, and main then
				// returns before a request is read (gateFuncs)
				if a.gates[fd] {
					return
				}
				k := 0
				done := false
				for _, fl := range fd.Type.Params.List {
					for _, nm := range fl.Names {
						if k == idx {
							if _, variadic := fl.Type.(*ast.Ellipsis); !variadic {
								a.taint(info.Defs[nm])
								done = true
							}
						}
						k++
					}
				}
				if done {
					return
				}
			}
			a.report("a call of "+q, t.Pos())
			return
		case *ast.IfStmt:
			if t.Cond == n {
				if a.terminates(t.Body) {
					return
				}
				a.report("a condition that does not end the run", t.Pos())
			}
			return
		case *ast.AssignStmt:
			for i, r := range t.Rhs {
				if r != n {
					continue
				}
				if len(t.Lhs) == len(t.Rhs) {
					a.assignTo(t.Lhs[i], t.Pos())
				} else {
					for _, l := range t.Lhs {
						a.assignTo(l, t.Pos())
					}
				}
			}
			return
		case *ast.ValueSpec:
			for _, nm := range t.Names {
				a.taint(info.Defs[nm])
			}
			return
		case *ast.RangeStmt:
			if t.X == n {
				for _, e := range []ast.Expr{t.Key, t.Value} {
					if e != nil {
						a.assignTo(e, t.Pos())
					}
				}
			}
			return
		case *ast.ReturnStmt:
			// which function, which result
			var fd *ast.FuncDecl
			for q := ast.Node(t); q != nil; q = a.parent[q] {
				if f, ok := q.(*ast.FuncDecl); ok {
					fd = f
					break
				}
				if _, ok := q.(*ast.FuncLit); ok {
					a.report("the result of a function literal", t.Pos())
					return
				}
			}
			if fd == nil {
				return
			}
			o := info.Defs[fd.Name]
			for i, r := range t.Results {
				if r == n {
					if a.retTaint[o] == nil {
						a.retTaint[o] = map[int]bool{}
					}
					if !a.retTaint[o][i] {
						a.retTaint[o][i] = true
						a.changed = true
					}
				}
			}
			if fd.Name.Name == "main" {
				return
			}
			return
		case *ast.ExprStmt:
			return
		case nil:
			return
		default:
			a.report(fmt.Sprintf("%T", p), p.Pos())
			return
		}
	}
}

func (a *argsFlow) assignTo(l ast.Expr, pos token.Pos) {
	if id, ok := ast.Unparen(l).(*ast.Ident); ok {
		if id.Name == "_" {
			return
		}
		a.taint(a.p.TypesInfo.ObjectOf(id))
		return
	}
	a.report("a store into "+types.ExprString(l), pos)
}

// followCallResult: the call returns tainted values at the given result indexes.
func (a *argsFlow) followCallResult(call *ast.CallExpr, idx map[int]bool) {
	switch t := a.parent[call].(type) {
	case *ast.AssignStmt:
		if len(t.Rhs) == 1 && len(t.Lhs) > 1 {
			for i, l := range t.Lhs {
				if idx[i] {
					a.assignTo(l, t.Pos())
				}
			}
			return
		}
	case *ast.ExprStmt:
		return
	}
	if idx[0] {
		a.follow(call)
	}
}

// ---------------------------------------------------------------------------
// Informational command-line modes
//
// `if printInfo(os.Args, os.Stdout) { return }` at the top of main: a function of the package that answers `--version`
// / `--help` and reports whether it did. Such a *gate* may look at the command line and write to standard output,
// provided that it has no effect at all unless it returns true — in which case main returns before any request is
// read. gateFuncs finds the functions that are used in exactly that way and proves the proviso on their control-flow
// graph: every block that contains an effect (a call other than len/cap/conversions/string predicates, a store to a
// non-local, go/defer/send) reaches only `return true`.

func gateFuncs(p *packages.Package) map[*ast.FuncDecl]bool {
	out := map[*ast.FuncDecl]bool{}
	if p == nil || p.Name != "main" {
		return out
	}
	info := p.TypesInfo
	decls := map[types.Object]*ast.FuncDecl{}
	var mainFn *ast.FuncDecl
	for _, f := range p.Syntax {
		for _, d := range f.Decls {
			if fd, ok := d.(*ast.FuncDecl); ok && fd.Body != nil && fd.Recv == nil {
				decls[info.Defs[fd.Name]] = fd
				if fd.Name.Name == "main" {
					mainFn = fd
				}
			}
		}
	}
	if mainFn == nil {
		return out
	}
	// gate call sites: top-level `if f(...) { return }` in main
	gateCalls := map[*ast.Ident]bool{}
	cand := map[types.Object]bool{}
	for _, st := range mainFn.Body.List {
		is, ok := st.(*ast.IfStmt)
		if !ok || is.Init != nil || is.Else != nil || len(is.Body.List) != 1 {
			continue
		}
		if rs, ok := is.Body.List[0].(*ast.ReturnStmt); !ok || len(rs.Results) != 0 {
			continue
		}
		call, ok := ast.Unparen(is.Cond).(*ast.CallExpr)
		if !ok {
			continue
		}
		id, ok := ast.Unparen(call.Fun).(*ast.Ident)
		if !ok || decls[info.Uses[id]] == nil {
			continue
		}
		gateCalls[id] = true
		cand[info.Uses[id]] = true
	}
	// every other use of the function disqualifies it
	for id, o := range info.Uses {
		if cand[o] && !gateCalls[id] {
			delete(cand, o)
		}
	}
	for o := range cand {
		if fd := decls[o]; exitGated(info, fd) {
			out[fd] = true
		}
	}
	return out
}

func exitGated(info *types.Info, fd *ast.FuncDecl) bool {
	sig, ok := info.Defs[fd.Name].Type().(*types.Signature)
	if !ok || sig.Results().Len() != 1 || !types.Identical(sig.Results().At(0).Type(), types.Typ[types.Bool]) {
		return false
	}
	if fd.Type.Results != nil && len(fd.Type.Results.List) == 1 && len(fd.Type.Results.List[0].Names) > 0 {
		return false // named result: returns are not plain constants
	}
	locals := map[types.Object]bool{}
	ast.Inspect(fd, func(n ast.Node) bool {
		if id, ok := n.(*ast.Ident); ok {
			if o := info.Defs[id]; o != nil {
				locals[o] = true
			}
		}
		return true
	})
	hasEffect := func(n ast.Node) bool {
		eff := false
		ast.Inspect(n, func(x ast.Node) bool {
			switch t := x.(type) {
			case *ast.FuncLit:
				eff = true
				return false
			case *ast.GoStmt, *ast.DeferStmt, *ast.SendStmt:
				eff = true
			case *ast.UnaryExpr:
				if t.Op == token.ARROW {
					eff = true
				}
			case *ast.CallExpr:
				if tv, ok := info.Types[t.Fun]; ok && tv.IsType() {
					return true
				}
				q := qualOf(info, t.Fun)
				if q == "builtin.len" || q == "builtin.cap" || strings.HasPrefix(q, "strings.") || q == "path/filepath.Base" || q == "path.Base" {
					return true
				}
				eff = true
			case *ast.AssignStmt:
				for _, l := range t.Lhs {
					id, ok := ast.Unparen(l).(*ast.Ident)
					if !ok || (id.Name != "_" && !locals[info.ObjectOf(id)]) {
						eff = true
					}
				}
			case *ast.IncDecStmt:
				if id, ok := ast.Unparen(t.X).(*ast.Ident); !ok || !locals[info.ObjectOf(id)] {
					eff = true
				}
			}
			return true
		})
		return eff
	}
	g := cfg.New(fd.Body, func(*ast.CallExpr) bool { return true })
	// classify returns
	retKind := map[*cfg.Block]int{} // 1 return false, 2 return true, 3 other
	for _, b := range g.Blocks {
		for _, n := range b.Nodes {
			rs, ok := n.(*ast.ReturnStmt)
			if !ok {
				continue
			}
			k := 3
			if len(rs.Results) == 1 {
				if tv, ok := info.Types[rs.Results[0]]; ok && tv.Value != nil && tv.Value.Kind() == constant.Bool {
					k = 1
					if constant.BoolVal(tv.Value) {
						k = 2
					}
				}
			}
			retKind[b] = k
		}
	}
	for _, k := range retKind {
		if k == 3 {
			return false
		}
	}
	// from every effect block only `return true` is reachable
	for _, b := range g.Blocks {
		if !b.Live {
			continue
		}
		eff := false
		for _, n := range b.Nodes {
			if _, isRet := n.(*ast.ReturnStmt); isRet {
				continue
			}
			if hasEffect(n) {
				eff = true
			}
		}
		if !eff {
			continue
		}
		seen := map[*cfg.Block]bool{}
		var dfs func(x *cfg.Block) bool
		dfs = func(x *cfg.Block) bool {
			if seen[x] {
				return true
			}
			seen[x] = true
			if k, isRet := retKind[x]; isRet {
				return k == 2
			}
			if len(x.Succs) == 0 {
				return false // leaves the function some other way
			}
			for _, s := range x.Succs {
				if !dfs(s) {
					return false
				}
			}
			return true
		}
		if !dfs(b) {
			return false
		}
	}
	return true
}
