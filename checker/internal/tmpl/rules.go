package tmpl

import (
	"fmt"
	"go/ast"
	"go/constant"
	"go/token"
	"go/types"
	"regexp"
	"sort"
	"strconv"
	"strings"

	"golang.org/x/tools/go/packages"

	"verif/checker/internal/core"
	"verif/checker/internal/source"
)

// LGen lists the packages that make up the generator (L-gen).
var LGen = []string{"cmd/protoc-gen-go-pulsar", "generator", "features/fastreflection", "features/fastreflection/copied", "features/protoc", "features/protoc/genid", "features/protoc/version"}

func eachFunc(p *packages.Package, f func(fd *ast.FuncDecl)) {
	for _, file := range p.Syntax {
		for _, d := range file.Decls {
			if fd, ok := d.(*ast.FuncDecl); ok && fd.Body != nil {
				f(fd)
			}
		}
	}
}

func fnName(fd *ast.FuncDecl) string {
	if fd.Recv != nil && len(fd.Recv.List) == 1 {
		return core.RecvName(fd.Recv.List[0].Type) + "." + fd.Name.Name
	}
	return fd.Name.Name
}

// ---------------------------------------------------------------------------
// T.names

// stripEmitted removes Go string/rune literals and // comments from a fragment of emitted code.
func stripEmitted(line string) string {
	var sb strings.Builder
	i := 0
	for i < len(line) {
		ch := line[i]
		switch ch {
		case '"', '\'', '`':
			q := ch
			i++
			for i < len(line) && line[i] != q {
				if line[i] == '\\' && q != '`' {
					i++
				}
				i++
			}
			sb.WriteByte(' ')
		case '/':
			if i+1 < len(line) && line[i+1] == '/' {
				return sb.String()
			}
			sb.WriteByte(ch)
		default:
			sb.WriteByte(ch)
		}
		i++
	}
	return sb.String()
}

// proseRe: four plain words in a row: a message for people (emitted inside a string literal), not a code fragment
var proseRe = regexp.MustCompile(`[A-Za-z]+ [A-Za-z]+ [A-Za-z]+ [A-Za-z]+`)

var litPkgRe = regexp.MustCompile(`(^|[^A-Za-z0-9_.])(fmt|math|sort|io|binary|bits|utf8|proto|protoreflect|protoiface|protoimpl|protoregistry|runtime|reflect|sync|strings|errors|unsafe|bytes|strconv|atomic)\.[A-Z][A-Za-z0-9_]*`)

// RunImports (T.imports): the templates may name an imported package only through the generated file's import
// table (g.Ident / GoImportPath.Ident / QualifiedGoIdent). A package name written out in the emitted text is
// bound to whatever package happens to hold that name in the file: an imported proto package called fmt, math,
// sort ... takes the plain name when it is referenced first, and the literal then refers to the wrong package.
func RunImports(c *core.Ctx) {
	const src = "S0"
	n := 0
	for _, rel := range []string{"features/fastreflection", "features/protoc"} {
		p := c.Pkg(rel)
		if p == nil {
			c.Fail("T.anchor", rel, "template package not found", "", src)
			continue
		}
		for _, f := range p.Syntax {
			for _, d := range f.Decls {
				fd, ok := d.(*ast.FuncDecl)
				if !ok || fd.Body == nil {
					continue
				}
				fn := fd.Name.Name
				var visit func(x ast.Node, inPanic bool)
				visit = func(x ast.Node, inPanic bool) {
					ast.Inspect(x, func(y ast.Node) bool {
						if y == x {
							return true
						}
						switch t := y.(type) {
						case *ast.CallExpr:
							// text handed to panic / error constructors is a message for the person running the generator
							q := core.QualName(core.CalleeObj(p.TypesInfo, t))
							if id, ok := t.Fun.(*ast.Ident); ok && id.Name == "panic" {
								q = "panic"
							}
							if q == "panic" || q == "fmt.Errorf" || q == "errors.New" {
								visit(t, true)
								return false
							}
							if isPMethod(core.CalleeObj(p.TypesInfo, t)) {
								n++
								line := ""
								for _, a := range t.Args {
									if tv, ok := p.TypesInfo.Types[a]; ok && tv.Value != nil && tv.Value.Kind() == constant.String {
										line += constant.StringVal(tv.Value)
									} else {
										line += "\x00"
									}
								}
								if !inPanic {
									for _, m := range litPkgRe.FindAllStringSubmatch(stripEmitted(line), -1) {
										c.Fail("T.imports", fmt.Sprintf("%s.%s emits %s", rel, fn, strings.TrimLeft(m[0], " \t(,=!&|+-*/<>{[:;\x00")),
											"the template writes the package name "+m[2]+" into the generated text instead of using the import table: in a file where another imported package is named "+m[2]+" the reference resolves to the wrong package (or to nothing)", c.PosStr(p.Fset, t.Pos()), src)
									}
								}
								return false
							}
						case *ast.BasicLit:
							// any other string constant of a template function may end up in the output through a helper
							if t.Kind == token.STRING && !inPanic {
								if tv, ok := p.TypesInfo.Types[t]; ok && tv.Value != nil && tv.Value.Kind() == constant.String && !proseRe.MatchString(constant.StringVal(tv.Value)) {
									for _, m := range litPkgRe.FindAllStringSubmatch(stripEmitted(constant.StringVal(tv.Value)), -1) {
										c.Fail("T.imports", fmt.Sprintf("%s.%s text %s", rel, fn, strings.TrimLeft(m[0], " \t(,=!&|+-*/<>{[:;\x00")),
											"a code fragment of the template writes the package name "+m[2]+" literally instead of using the import table: in a file where another imported package is named "+m[2]+" the reference resolves to the wrong package (or to nothing)", c.PosStr(p.Fset, t.Pos()), src)
									}
								}
							}
						}
						return true
					})
				}
				visit(fd.Body, false)
			}
		}
	}
	c.Check(n >= 500, "T.imports", "emitted lines scanned", fmt.Sprintf("%d P(...) calls scanned: no package name is written out literally", n), fmt.Sprintf("only %d P(...) calls found", n), "", src)
}

func RunNames(c *core.Ctx) {
	const src = "S0"
	p := c.Pkg("cmd/protoc-gen-go-pulsar")
	if p == nil {
		c.Fail("T.anchor", "cmd/protoc-gen-go-pulsar", "package not found", "", src)
		return
	}
	// reservedFieldNames keys
	reserved := map[string]bool{}
	var resPos token.Pos
	for _, f := range p.Syntax {
		for _, d := range f.Decls {
			gd, ok := d.(*ast.GenDecl)
			if !ok {
				continue
			}
			for _, sp := range gd.Specs {
				vs, ok := sp.(*ast.ValueSpec)
				if !ok {
					continue
				}
				for i, n := range vs.Names {
					if n.Name != "reservedFieldNames" || i >= len(vs.Values) {
						continue
					}
					resPos = n.Pos()
					if cl, ok := vs.Values[i].(*ast.CompositeLit); ok {
						for _, e := range cl.Elts {
							if kv, ok := e.(*ast.KeyValueExpr); ok {
								if bl, ok := kv.Key.(*ast.BasicLit); ok {
									s, _ := strconv.Unquote(bl.Value)
									reserved[s] = true
								}
							}
						}
					}
				}
			}
		}
	}
	if len(reserved) == 0 {
		c.Fail("T.anchor", "cmd reservedFieldNames", "table not found", "", src)
		return
	}
	// method sets of fastReflection types from the analysed generated code
	s1 := source.GetS1(c)
	methods := map[string]bool{}
	for _, g := range s1.S1 {
		for _, m := range g.Msgs {
			if m.Fast == nil {
				continue
			}
			ms := types.NewMethodSet(types.NewPointer(m.Fast))
			for i := 0; i < ms.Len(); i++ {
				if ms.At(i).Obj().Exported() {
					methods[ms.At(i).Obj().Name()] = true
				}
			}
		}
	}
	var ms []string
	for m := range methods {
		ms = append(ms, m)
	}
	sort.Strings(ms)
	for _, m := range ms {
		c.Check(reserved[m], "T.names", "reservedFieldNames covers method "+m, "reserved", "exported method "+m+" of the fast-reflection type is not in reservedFieldNames: a field or oneof named like it yields 'field and method with the same name'", c.PosStr(p.Fset, resPos), src)
	}
	c.Check(len(ms) >= 16, "T.names", "fast-reflection method set", fmt.Sprintf("%d exported methods", len(ms)), "fewer than 16 exported methods found on fast-reflection types (anchor lost)", "", src)
	// rewriteMessageField renames Fields and Oneofs and recurses into nested Messages; main applies it to every generated file's messages
	var rw *ast.FuncDecl
	eachFunc(p, func(fd *ast.FuncDecl) {
		if fd.Name.Name == "rewriteMessageField" {
			rw = fd
		}
	})
	if rw == nil {
		c.Fail("T.anchor", "cmd rewriteMessageField", "function not found", "", src)
		return
	}
	renamed := map[string]bool{}
	recursed := false
	ast.Inspect(rw.Body, func(n ast.Node) bool {
		rs, ok := n.(*ast.RangeStmt)
		if !ok {
			return true
		}
		sel, ok := rs.X.(*ast.SelectorExpr)
		if !ok {
			return true
		}
		val, _ := rs.Value.(*ast.Ident)
		if val == nil {
			return true
		}
		ast.Inspect(rs.Body, func(m ast.Node) bool {
			switch t := m.(type) {
			case *ast.AssignStmt:
				for _, l := range t.Lhs {
					if ls, ok := l.(*ast.SelectorExpr); ok && ls.Sel.Name == "GoName" {
						if id, ok := ls.X.(*ast.Ident); ok && p.TypesInfo.ObjectOf(id) == p.TypesInfo.ObjectOf(val) {
							// guarded by a reservedFieldNames lookup in the same loop body?
							guard := false
							ast.Inspect(rs.Body, func(q ast.Node) bool {
								if ix, ok := q.(*ast.IndexExpr); ok {
									if id, ok := ix.X.(*ast.Ident); ok && id.Name == "reservedFieldNames" {
										guard = true
									}
								}
								return true
							})
							if guard {
								renamed[sel.Sel.Name] = true
							}
						}
					}
				}
			case *ast.CallExpr:
				if id, ok := t.Fun.(*ast.Ident); ok && id.Name == "rewriteMessageField" && sel.Sel.Name == "Messages" {
					recursed = true
				}
			}
			return true
		})
		return true
	})
	// every early return before the renaming/recursion must be one of the two accepted skips:
	// already processed (map lookup on the processed set) or a map-entry message
	var badRet []string
	for _, st := range rw.Body.List {
		is, ok := st.(*ast.IfStmt)
		if !ok {
			continue
		}
		hasRet := false
		ast.Inspect(is.Body, func(x ast.Node) bool {
			if _, ok := x.(*ast.ReturnStmt); ok {
				hasRet = true
			}
			return true
		})
		if !hasRet {
			continue
		}
		cs := types.ExprString(is.Cond)
		okCond := cs == "done" || strings.HasSuffix(cs, ".Desc.IsMapEntry()")
		// the processed set as a map to bool: `if processed[message.Desc.FullName()] { return }`
		if ix, isIdx := ast.Unparen(is.Cond).(*ast.IndexExpr); isIdx && is.Init == nil {
			if mt, isMap := p.TypesInfo.TypeOf(ix.X).Underlying().(*types.Map); isMap {
				if bt, isB := mt.Elem().Underlying().(*types.Basic); isB && bt.Kind() == types.Bool && strings.HasSuffix(types.ExprString(ix.Index), ".Desc.FullName()") {
					okCond = true
				}
			}
		}
		if is.Init != nil {
			if as, ok := is.Init.(*ast.AssignStmt); ok && len(as.Rhs) == 1 {
				if _, isIdx := as.Rhs[0].(*ast.IndexExpr); isIdx && len(as.Lhs) == 2 && types.ExprString(as.Lhs[1]) == cs {
					okCond = true
				}
			}
		}
		if !okCond {
			badRet = append(badRet, cs)
		}
	}
	pos := c.PosStr(p.Fset, rw.Pos())
	c.Check(len(badRet) == 0, "T.names", "rewriteMessageField early returns", "messages are skipped only when already processed or map entries", fmt.Sprintf("rewriteMessageField returns early under %v: fields, oneofs and nested messages of such messages are not renamed", badRet), pos, src)
	c.Check(renamed["Fields"], "T.names", "rewriteMessageField renames Fields", "field Go names colliding with reserved names are suffixed", "fields are not passed through the reserved-name rename", pos, src)
	c.Check(renamed["Oneofs"], "T.names", "rewriteMessageField renames Oneofs", "oneof Go names colliding with reserved names are suffixed", "oneofs (which become struct fields of the message) are not passed through the reserved-name rename", pos, src)
	c.Check(recursed, "T.names", "rewriteMessageField recurses into nested messages", "nested messages are processed", "nested messages are not processed", pos, src)
}

// ---------------------------------------------------------------------------
// T.kinds

var allKinds = []string{"BoolKind", "EnumKind", "Int32Kind", "Sint32Kind", "Uint32Kind", "Int64Kind", "Sint64Kind", "Uint64Kind", "Sfixed32Kind", "Fixed32Kind", "FloatKind", "Sfixed64Kind", "Fixed64Kind", "DoubleKind", "StringKind", "BytesKind", "MessageKind"}
var keyKinds = []string{"BoolKind", "Int32Kind", "Sint32Kind", "Uint32Kind", "Int64Kind", "Sint64Kind", "Uint64Kind", "Sfixed32Kind", "Fixed32Kind", "Sfixed64Kind", "Fixed64Kind", "StringKind"}

// kindExceptions: switches without default that deliberately cover fewer kinds. key: function + "|" + tag
var kindExceptions = map[string]struct {
	need []string
	why  string
}{
	"listGen.genTruncate|g.field.Desc.Kind()": {[]string{"MessageKind"}, "only message elements need their tail pointers cleared before truncation"},
	"fastGenerator.unmarshalField|field.Desc.Kind()": {[]string{"DoubleKind", "Fixed64Kind", "Sfixed64Kind", "FloatKind", "Fixed32Kind", "Sfixed32Kind", "Int64Kind", "Uint64Kind", "Int32Kind", "Uint32Kind", "Sint32Kind", "Sint64Kind", "BoolKind"},
		"packed element-count pre-pass: capacity hint only; enum lists fall back to append growth"},
}

func RunKinds(c *core.Ctx) {
	const src = "S0"
	n := 0
	for _, rel := range []string{"features/fastreflection", "generator"} {
		p := c.Pkg(rel)
		if p == nil {
			c.Fail("T.anchor", rel, "package not found", "", src)
			continue
		}
		eachFunc(p, func(fd *ast.FuncDecl) {
			seq := map[string]int{}
			ast.Inspect(fd.Body, func(x ast.Node) bool {
				sw, ok := x.(*ast.SwitchStmt)
				if !ok || sw.Tag == nil {
					return true
				}
				tt := p.TypesInfo.TypeOf(sw.Tag)
				if tt == nil || !strings.HasSuffix(tt.String(), "protoreflect.Kind") {
					return true
				}
				tag := types.ExprString(sw.Tag)
				key := fnName(fd) + "|" + tag
				seq[key]++
				covered := map[string]bool{}
				hasDefault := false
				for _, cs := range sw.Body.List {
					cc := cs.(*ast.CaseClause)
					if cc.List == nil {
						hasDefault = true
					}
					for _, e := range cc.List {
						s := types.ExprString(e)
						covered[s[strings.LastIndex(s, ".")+1:]] = true
					}
				}
				n++
				con := fmt.Sprintf("%s switch %s #%d", fnName(fd), tag, seq[key])
				pos := c.PosStr(p.Fset, sw.Pos())
				if hasDefault {
					c.Ok("T.kinds", con, "has a default arm", pos, src)
					return true
				}
				need := allKinds
				why := "all non-group kinds"
				if strings.Contains(tag, "MapKey()") {
					need, why = keyKinds, "all legal map key kinds"
				}
				if ex, ok := kindExceptions[key]; ok {
					need, why = ex.need, "frozen exception: "+ex.why
				}
				var missing []string
				for _, k := range need {
					if !covered[k] {
						missing = append(missing, k)
					}
				}
				// "special cases first": every arm leaves the function and the switch is followed by code that does
				// not simply give up: the kinds without an arm are handled by what follows
				if len(missing) > 0 && specialCaseSwitch(fd, sw) {
					c.Ok("T.kinds", con, "special-case switch (every arm returns); the other kinds are handled by the code that follows", pos, src)
					return true
				}
				c.Check(len(missing) == 0, "T.kinds", con, "covers "+why, fmt.Sprintf("switch without default omits %v: fields of these kinds silently get no code", missing), pos, src)
				return true
			})
		})
	}
	c.Stat("T.kinds switches", n)
}

// ---------------------------------------------------------------------------
// T.det and T.pure (C13)

var bannedCalls = map[string]string{
	"time.Now": "clock", "time.Since": "clock", "time.Until": "clock",
	"os.Getenv": "environment", "os.Environ": "environment", "os.LookupEnv": "environment", "os.Hostname": "host", "os.Getwd": "path", "os.Getpid": "process", "os.Getppid": "process",
	"os.UserHomeDir": "path", "os.UserCacheDir": "path", "os.UserConfigDir": "path", "os.Executable": "path", "os.TempDir": "path",
	"os.ReadFile": "file system", "os.Open": "file system", "os.ReadDir": "file system", "os.Stat": "file system", "os.OpenFile": "file system",
	"path/filepath.Abs": "path", "runtime.Version": "toolchain", "runtime.Caller": "path", "runtime.Callers": "path", "runtime/debug.ReadBuildInfo": "build info",
	"os/user.Current": "user", "os.Args": "command line / binary name", "os.Stdin": "side input", "flag.CommandLine": "command line",
}
var bannedPkgs = map[string]string{"math/rand": "random", "math/rand/v2": "random", "crypto/rand": "random", "net": "network", "net/http": "network", "os/exec": "process"}

func RunDetPure(c *core.Ctx) {
	const src = "S0"
	nRange, nFuncs := 0, 0
	nMarshal := 0
	defer func() {
		c.Check(nMarshal >= 1, "T.det", "generator marshal calls found", fmt.Sprintf("%d proto marshal call(s) in the generator packages", nMarshal), "no proto marshal call found in the generator packages (anchor lost: genFileDescriptor serialises the file descriptor)", "", src)
	}()
	for _, rel := range LGen {
		p := c.Pkg(rel)
		if p == nil {
			c.Fail("T.anchor", rel, "generator package not found", "", src)
			continue
		}
		info := p.TypesInfo
		// --- banned references (who-may-call, by resolved object)
		bad := 0
		// code of the main package that cannot run on the way to a response: the gates of informational modes (their
		// effects are confined to paths that end the run, see gateFuncs) and unexported functions that nothing refers to
		// any more (inlined by the helper normalisation and judged where they were inlined)
		offPath := func(pos token.Pos) bool { return false }
		if rel == "cmd/protoc-gen-go-pulsar" {
			var spans [][2]token.Pos
			for fd := range gateFuncs(p) {
				spans = append(spans, [2]token.Pos{fd.Pos(), fd.End()})
			}
			usedFn := map[types.Object]bool{}
			for _, obj := range info.Uses {
				if _, isF := obj.(*types.Func); isF {
					usedFn[obj] = true
				}
			}
			eachFunc(p, func(fd *ast.FuncDecl) {
				o := info.Defs[fd.Name]
				if o != nil && !ast.IsExported(fd.Name.Name) && !usedFn[o] && fd.Recv == nil && fd.Name.Name != "main" && fd.Name.Name != "init" {
					spans = append(spans, [2]token.Pos{fd.Pos(), fd.End()})
				}
			})
			offPath = func(pos token.Pos) bool {
				for _, sp := range spans {
					if pos >= sp[0] && pos < sp[1] {
						return true
					}
				}
				return false
			}
			// functions referred to from such code only are off the path too (a helper of a gate runs only inside the gate,
			// and a gate has no effect — hence calls nothing — unless it ends the run)
			for changed := true; changed; {
				changed = false
				eachFunc(p, func(fd *ast.FuncDecl) {
					o := info.Defs[fd.Name]
					if o == nil || fd.Recv != nil || ast.IsExported(fd.Name.Name) || fd.Name.Name == "main" || fd.Name.Name == "init" || offPath(fd.Pos()) {
						return
					}
					n, all := 0, true
					for id, obj := range info.Uses {
						if obj == o {
							n++
							all = all && offPath(id.Pos())
						}
					}
					if n > 0 && all {
						spans = append(spans, [2]token.Pos{fd.Pos(), fd.End()})
						changed = true
					}
				})
			}
		}
		for id, obj := range info.Uses {
			if obj == nil || obj.Pkg() == nil {
				continue
			}
			if offPath(id.Pos()) {
				continue
			}
			q := obj.Pkg().Path() + "." + obj.Name()
			if f, ok := obj.(*types.Func); ok {
				if sig := f.Type().(*types.Signature); sig.Recv() != nil {
					continue
				}
			}
			// the main package is the process boundary: it reads the request from os.Stdin, as protogen does; its use of
			// the command line is followed value by value (argsFlow) instead of being banned outright
			if rel == "cmd/protoc-gen-go-pulsar" && (q == "os.Stdin" || q == "os.Args") {
				continue
			}
			if why, ok := bannedCalls[q]; ok {
				bad++
				c.Fail("T.pure", fmt.Sprintf("%s references %s", rel, q), "generator code references a "+why+"-dependent function; the response would not be a pure function of the request", c.PosStr(p.Fset, id.Pos()), src)
			}
			if why, ok := bannedPkgs[obj.Pkg().Path()]; ok {
				bad++
				c.Fail("T.pure", fmt.Sprintf("%s references %s", rel, q), "generator code uses package "+obj.Pkg().Path()+" ("+why+")", c.PosStr(p.Fset, id.Pos()), src)
			}
		}
		for _, imp := range p.Types.Imports() {
			if why, ok := bannedPkgs[imp.Path()]; ok {
				c.Fail("T.pure", rel+" imports "+imp.Path(), "generator package imports "+imp.Path()+" ("+why+")", "", src)
			}
		}
		if rel == "cmd/protoc-gen-go-pulsar" {
			runArgsFlow(c, p, rel, src)
			runCarriedState(c, p, rel, src)
		}
		nMarshal += runMarshalDet(c, p, rel, src)
		// a pointer (channel, function) handed to a formatting call is printed as an address, which differs from run to
		// run: fmt.Sprint*/Errorf/Fprint* and the emitting P(...) must not receive one, unless its type says how it prints
		nFmt, nPtr := 0, 0
		eachFunc(p, func(fd *ast.FuncDecl) {
			ast.Inspect(fd.Body, func(x ast.Node) bool {
				call, ok := x.(*ast.CallExpr)
				if !ok {
					return true
				}
				obj := core.CalleeObj(info, call)
				q := core.QualName(obj)
				first := -1
				switch q {
				case "fmt.Sprint", "fmt.Sprintln":
					first = 0
				case "fmt.Sprintf", "fmt.Errorf", "fmt.Fprint", "fmt.Fprintln":
					first = 1
				case "fmt.Fprintf":
					first = 2
				default:
					if isPMethod(obj) {
						first = 0
					}
				}
				if first < 0 || call.Ellipsis.IsValid() {
					return true
				}
				nFmt++
				for i := first; i < len(call.Args); i++ {
					t := info.TypeOf(call.Args[i])
					if t == nil {
						continue
					}
					addr := false
					switch u := t.Underlying().(type) {
					case *types.Pointer:
						// &{…} for structs, arrays, slices and maps; an address for everything else
						switch u.Elem().Underlying().(type) {
						case *types.Struct, *types.Array, *types.Slice, *types.Map:
						default:
							addr = true
						}
					case *types.Chan, *types.Signature:
						addr = true
					case *types.Basic:
						addr = u.Kind() == types.UnsafePointer
					}
					if !addr {
						continue
					}
					// types that print themselves
					ms := types.NewMethodSet(t)
					self := false
					for _, mn := range []string{"String", "Error", "Format", "GoString"} {
						if ms.Lookup(nil, mn) != nil || ms.Lookup(p.Types, mn) != nil {
							self = true
						}
					}
					if self {
						continue
					}
					nPtr++
					c.Fail("T.pure", fmt.Sprintf("%s.%s formats %s", rel, fnName(fd), clip(types.ExprString(call.Args[i]), 50)),
						"a value of type "+t.String()+" is formatted into text: it prints as a memory address, which differs between runs (dereference it, or use its getter)", c.PosStr(p.Fset, call.Args[i].Pos()), src)
				}
				return true
			})
		})
		c.Ok("T.pure", rel+" formatted values", fmt.Sprintf("%d formatting / emitting calls, %d with an argument that prints as an address", nFmt, nPtr), "", src)
		c.Ok("T.pure", rel+" banned-reference scan", fmt.Sprintf("%d identifier uses resolved, %d banned", len(info.Uses), bad), "", src)
		// --- package-level variable writes outside init / registration
		pkgVars := map[types.Object]bool{}
		for _, n := range p.Types.Scope().Names() {
			if v, ok := p.Types.Scope().Lookup(n).(*types.Var); ok {
				pkgVars[v] = true
			}
		}
		eachFunc(p, func(fd *ast.FuncDecl) {
			nFuncs++
			name := fnName(fd)
			allowed := name == "init" || name == "RegisterFeature"
			ast.Inspect(fd.Body, func(x ast.Node) bool {
				var targets []ast.Expr
				switch t := x.(type) {
				case *ast.AssignStmt:
					if t.Tok != token.DEFINE {
						targets = t.Lhs
					}
				case *ast.IncDecStmt:
					targets = []ast.Expr{t.X}
				}
				for _, l := range targets {
					root := l
					for {
						switch r := root.(type) {
						case *ast.IndexExpr:
							root = r.X
							continue
						case *ast.SelectorExpr:
							if _, isPkg := info.Uses[identOf(r.X)].(*types.PkgName); isPkg {
								root = r.Sel
							} else {
								root = r.X
							}
							continue
						case *ast.StarExpr:
							root = r.X
							continue
						case *ast.ParenExpr:
							root = r.X
							continue
						}
						break
					}
					if id, ok := root.(*ast.Ident); ok && pkgVars[info.ObjectOf(id)] {
						con := fmt.Sprintf("%s.%s writes package variable %s", rel, name, id.Name)
						if allowed {
							c.Ok("T.pure", con, "registration at init time", c.PosStr(p.Fset, l.Pos()), src)
						} else {
							c.Fail("T.pure", con, "package-level state is mutated while generating: output of one file can depend on previously generated files", c.PosStr(p.Fset, l.Pos()), src)
						}
					}
				}
				return true
			})
			// --- package variables whose address escapes (explicit & or a pointer-receiver method call): potential writes
			ast.Inspect(fd.Body, func(x ast.Node) bool {
				var target ast.Expr
				how := ""
				switch t := x.(type) {
				case *ast.UnaryExpr:
					if t.Op == token.AND {
						target, how = t.X, "address taken"
					}
				case *ast.CallExpr:
					if sel, ok := t.Fun.(*ast.SelectorExpr); ok {
						if si, ok := info.Selections[sel]; ok && si.Kind() == types.MethodVal {
							if f, ok := si.Obj().(*types.Func); ok {
								if sig := f.Type().(*types.Signature); sig.Recv() != nil {
									if _, isPtr := sig.Recv().Type().(*types.Pointer); isPtr {
										if _, recvIsPtr := info.TypeOf(sel.X).(*types.Pointer); !recvIsPtr {
											target, how = sel.X, "pointer-receiver method "+f.Name()+" called on it"
										}
									}
								}
							}
						}
					}
				}
				if target == nil {
					return true
				}
				root := target
				for {
					switch r := root.(type) {
					case *ast.SelectorExpr:
						if _, isPkg := info.Uses[identOf(r.X)].(*types.PkgName); isPkg {
							root = r.Sel
						} else {
							root = r.X
						}
						continue
					case *ast.IndexExpr:
						root = r.X
						continue
					case *ast.ParenExpr:
						root = r.X
						continue
					}
					break
				}
				if id, ok := root.(*ast.Ident); ok && pkgVars[info.ObjectOf(id)] && !allowed {
					c.Fail("T.pure", fmt.Sprintf("%s.%s mutates package variable %s", rel, name, id.Name), "package-level state can be modified while generating ("+how+"): the output for one file can depend on the files generated before it in the same invocation", c.PosStr(p.Fset, x.Pos()), src)
				}
				return true
			})
			// --- schedule- or address-dependent constructs
			ast.Inspect(fd.Body, func(x ast.Node) bool {
				switch t := x.(type) {
				case *ast.GoStmt:
					c.Fail("T.pure", fmt.Sprintf("%s.%s go statement", rel, name), "the generator starts a goroutine: output order can depend on the schedule", c.PosStr(p.Fset, t.Pos()), src)
				case *ast.SelectStmt:
					c.Fail("T.pure", fmt.Sprintf("%s.%s select statement", rel, name), "select chooses among ready channels nondeterministically", c.PosStr(p.Fset, t.Pos()), src)
				case *ast.BasicLit:
					if t.Kind == token.STRING && strings.Contains(t.Value, "%p") {
						c.Fail("T.pure", fmt.Sprintf("%s.%s %%p verb", rel, name), "a pointer is formatted into text: addresses differ between runs", c.PosStr(p.Fset, t.Pos()), src)
					}
				}
				return true
			})
			// --- map ranges
			// iteration over a map without a range statement: maps.Keys / maps.Values / maps.All hand the map's random order
			// on; only the sorted collectors take it away
			var stack []ast.Node
			ast.Inspect(fd.Body, func(x ast.Node) bool {
				if x == nil {
					stack = stack[:len(stack)-1]
					return true
				}
				stack = append(stack, x)
				call, ok := x.(*ast.CallExpr)
				if !ok {
					return true
				}
				q := core.QualName(core.CalleeObj(info, call))
				if q != "maps.Keys" && q != "maps.Values" && q != "maps.All" && !strings.HasPrefix(q, "golang.org/x/exp/maps.") &&
					q != "reflect.Value.MapKeys" && q != "reflect.Value.MapRange" {
					return true
				}
				nRange++
				con := fmt.Sprintf("%s.%s %s", rel, name, clip(types.ExprString(call), 60))
				sorted := false
				if len(stack) >= 2 {
					if outer, ok := stack[len(stack)-2].(*ast.CallExpr); ok && len(outer.Args) >= 1 && outer.Args[0] == ast.Expr(call) {
						oq := core.QualName(core.CalleeObj(info, outer))
						sorted = oq == "slices.Sorted" || oq == "slices.SortedFunc" || oq == "slices.SortedStableFunc"
					}
				}
				if sorted {
					c.Ok("T.det", con, "map iterator consumed by a sorting collector", c.PosStr(p.Fset, call.Pos()), src)
				} else {
					c.Fail("T.det", con, "the elements of a Go map are taken in iteration order (maps.Keys/Values/All) without being sorted: the order can reach the output", c.PosStr(p.Fset, call.Pos()), src)
				}
				return true
			})
			ast.Inspect(fd.Body, func(x ast.Node) bool {
				rs, ok := x.(*ast.RangeStmt)
				if !ok {
					return true
				}
				tt := info.TypeOf(rs.X)
				if tt == nil {
					return true
				}
				if _, isMap := tt.Underlying().(*types.Map); !isMap {
					return true
				}
				nRange++
				con := fmt.Sprintf("%s.%s range %s", rel, name, types.ExprString(rs.X))
				idiom, why := classifyMapRange(p, fd, rs)
				if idiom != "" {
					c.Ok("T.det", con, "order-insensitive: "+idiom, c.PosStr(p.Fset, rs.Pos()), src)
				} else {
					c.Fail("T.det", con, "iteration over a Go map whose order can reach the output: "+why, c.PosStr(p.Fset, rs.Pos()), src)
				}
				return true
			})
		})
	}
	c.Stat("T.det map ranges", nRange)
	c.Stat("L-gen functions", nFuncs)

	// the protogen tree is shared by every file and feature of the invocation: nothing writes to it except the two
	// confirmed renames of reserved names in the driver (field.GoName, oneof.GoName in rewriteMessageField)
	for _, rel := range LGen {
		p := c.Pkg(rel)
		if p == nil {
			continue
		}
		info := p.TypesInfo
		isProtogen := func(t types.Type) bool {
			for {
				switch u := t.(type) {
				case *types.Pointer:
					t = u.Elem()
					continue
				case *types.Slice:
					t = u.Elem()
					continue
				}
				break
			}
			n, ok := t.(*types.Named)
			return ok && n.Obj().Pkg() != nil && n.Obj().Pkg().Path() == "google.golang.org/protobuf/compiler/protogen" && n.Obj().Name() != "GeneratedFile" && n.Obj().Name() != "Plugin" && n.Obj().Name() != "Options"
		}
		nW := 0
		eachFunc(p, func(fd *ast.FuncDecl) {
			ast.Inspect(fd.Body, func(x ast.Node) bool {
				var targets []ast.Expr
				switch t := x.(type) {
				case *ast.AssignStmt:
					if t.Tok != token.DEFINE {
						targets = t.Lhs
					}
				case *ast.IncDecStmt:
					targets = []ast.Expr{t.X}
				}
				for _, l := range targets {
					// a store into a field or element of a protogen value: x.F = …, x.F[i] = …, x.Fs[i].G = …
					root := ast.Unparen(l)
					hit := false
					for {
						switch r := root.(type) {
						case *ast.SelectorExpr:
							if tv := info.TypeOf(r.X); tv != nil && isProtogen(tv) {
								hit = true
							}
							root = ast.Unparen(r.X)
							continue
						case *ast.IndexExpr:
							// (an element store counts through the selector that yields the slice: x.Fields[i] = …; a local
							// slice of descriptions is the function's own)
							root = ast.Unparen(r.X)
							continue
						case *ast.StarExpr:
							root = ast.Unparen(r.X)
							continue
						}
						break
					}
					if !hit {
						continue
					}
					nW++
					con := fmt.Sprintf("%s.%s writes %s", rel, fnName(fd), clip(types.ExprString(l), 60))
					ok := false
					if rel == "cmd/protoc-gen-go-pulsar" && fnName(fd) == "rewriteMessageField" {
						if sel, isSel := ast.Unparen(l).(*ast.SelectorExpr); isSel && sel.Sel.Name == "GoName" {
							if id, isID := ast.Unparen(sel.X).(*ast.Ident); isID {
								tn := ""
								if pt, isP := info.TypeOf(id).(*types.Pointer); isP {
									if n, isN := pt.Elem().(*types.Named); isN {
										tn = n.Obj().Name()
									}
								}
								ok = tn == "Field" || tn == "Oneof"
							}
						}
					}
					if ok {
						c.Ok("T.pure", con, "confirmed: the Go name of a field / oneof that collides with a protoreflect.Message method gets a `_` suffix, before anything is generated", c.PosStr(p.Fset, l.Pos()), src)
					} else {
						c.Fail("T.pure", con, "generator code writes into the protogen description shared by all files and features of the invocation: what is generated for one file can then depend on what else was processed before", c.PosStr(p.Fset, l.Pos()), src)
					}
				}
				return true
			})
		})
		_ = nW
	}
	// GenerateHelpers implementations emit nothing (their call depends on which files were generated before)
	for _, rel := range []string{"features/fastreflection", "features/protoc"} {
		p := c.Pkg(rel)
		if p == nil {
			continue
		}
		found := false
		eachFunc(p, func(fd *ast.FuncDecl) {
			if fd.Name.Name != "GenerateHelpers" {
				return
			}
			found = true
			c.Check(len(fd.Body.List) == 0, "T.pure", rel+"."+fnName(fd)+" emits nothing", "empty body", "GenerateHelpers has a body: helpers are emitted only into the first generated file of a package, so a file's content depends on co-generated files", c.PosStr(p.Fset, fd.Pos()), src)
		})
		if !found {
			c.Fail("T.anchor", rel+" GenerateHelpers", "method not found", "", src)
		}
	}
	// cross-file state has no readers in the feature packages
	gp := c.Pkg("generator")
	if gp != nil {
		watch := map[types.Object]string{}
		if gf, ok := gp.Types.Scope().Lookup("GeneratedFile").(*types.TypeName); ok {
			st := gf.Type().Underlying().(*types.Struct)
			for i := 0; i < st.NumFields(); i++ {
				if st.Field(i).Name() == "LocalPackages" || st.Field(i).Name() == "Ext" {
					watch[st.Field(i)] = "GeneratedFile." + st.Field(i).Name()
				}
			}
			ms := types.NewMethodSet(types.NewPointer(gf.Type()))
			for i := 0; i < ms.Len(); i++ {
				if ms.At(i).Obj().Name() == "IsLocalMessage" {
					watch[ms.At(i).Obj()] = "GeneratedFile.IsLocalMessage"
				}
			}
		}
		// protogen's own view of the request's files_to_generate: File.Generate, and the raw request's list
		var visitPkg func(ip *types.Package, seen map[*types.Package]bool)
		visitPkg = func(ip *types.Package, seen map[*types.Package]bool) {
			if seen[ip] {
				return
			}
			seen[ip] = true
			switch ip.Path() {
			case "google.golang.org/protobuf/compiler/protogen":
				if o, ok := ip.Scope().Lookup("File").(*types.TypeName); ok {
					if st, ok := o.Type().Underlying().(*types.Struct); ok {
						for i := 0; i < st.NumFields(); i++ {
							if st.Field(i).Name() == "Generate" {
								watch[st.Field(i)] = "protogen.File.Generate"
							}
						}
					}
				}
			case "google.golang.org/protobuf/types/pluginpb":
				if o, ok := ip.Scope().Lookup("CodeGeneratorRequest").(*types.TypeName); ok {
					if st, ok := o.Type().Underlying().(*types.Struct); ok {
						for i := 0; i < st.NumFields(); i++ {
							if st.Field(i).Name() == "FileToGenerate" {
								watch[st.Field(i)] = "CodeGeneratorRequest.FileToGenerate"
							}
						}
					}
					ms := types.NewMethodSet(types.NewPointer(o.Type()))
					for i := 0; i < ms.Len(); i++ {
						if ms.At(i).Obj().Name() == "GetFileToGenerate" {
							watch[ms.At(i).Obj()] = "CodeGeneratorRequest.GetFileToGenerate"
						}
					}
				}
			}
			for _, q := range ip.Imports() {
				visitPkg(q, seen)
			}
		}
		visitPkg(gp.Types, map[*types.Package]bool{})
		for _, rel := range []string{"features/fastreflection", "features/fastreflection/copied", "features/protoc", "generator", "cmd/protoc-gen-go-pulsar"} {
			p := c.Pkg(rel)
			if p == nil {
				continue
			}
			n := 0
			// confirmed: generator.NewGenerator fills LocalPackages from File.Generate, GenerateFile hands it on, IsLocalMessage
			// reads it (and both are watched in the templates)
			allowed := map[*ast.Ident]bool{}
			if rel == "generator" {
				eachFunc(p, func(fd *ast.FuncDecl) {
					if fd.Name.Name != "NewGenerator" && fd.Name.Name != "GenerateFile" && fd.Name.Name != "IsLocalMessage" {
						return
					}
					ast.Inspect(fd, func(x ast.Node) bool {
						if id, ok := x.(*ast.Ident); ok {
							allowed[id] = true
						}
						return true
					})
				})
			}
			if rel == "cmd/protoc-gen-go-pulsar" {
				// confirmed form in the driver: `if !file.Generate { continue }` — the file is left out as a whole
				eachFunc(p, func(fd *ast.FuncDecl) {
					ast.Inspect(fd, func(x ast.Node) bool {
						// the same decision written positively: `for … { if file.Generate { … } }` as the whole loop body
						if rs, ok := x.(*ast.RangeStmt); ok && len(rs.Body.List) == 1 {
							if is, ok := rs.Body.List[0].(*ast.IfStmt); ok && is.Init == nil && is.Else == nil {
								if sel, ok := ast.Unparen(is.Cond).(*ast.SelectorExpr); ok {
									if id, ok := sel.X.(*ast.Ident); ok && rs.Value != nil && identOf(rs.Value) != nil && p.TypesInfo.ObjectOf(id) == p.TypesInfo.ObjectOf(identOf(rs.Value)) {
										allowed[sel.Sel] = true
									}
								}
							}
						}
						is, ok := x.(*ast.IfStmt)
						if !ok || is.Init != nil || is.Else != nil || len(is.Body.List) != 1 {
							return true
						}
						if br, ok := is.Body.List[0].(*ast.BranchStmt); !ok || br.Tok != token.CONTINUE || br.Label != nil {
							return true
						}
						// … also as one disjunct of the condition (`if !file.Generate || <another reason to skip> { continue }`): a
						// file that is not generated is still left out as a whole
						var disj func(e ast.Expr)
						disj = func(e ast.Expr) {
							e = ast.Unparen(e)
							if be, ok := e.(*ast.BinaryExpr); ok && be.Op == token.LOR {
								disj(be.X)
								disj(be.Y)
								return
							}
							if ue, ok := e.(*ast.UnaryExpr); ok && ue.Op == token.NOT {
								if sel, ok := ast.Unparen(ue.X).(*ast.SelectorExpr); ok {
									allowed[sel.Sel] = true
								}
							}
						}
						disj(is.Cond)
						return true
					})
				})
			}
			// unexported helpers of the generator package that only the confirmed readers call are part of them
			if rel == "generator" {
				enclosing := map[*ast.Ident]*ast.FuncDecl{}
				eachFunc(p, func(fd *ast.FuncDecl) {
					ast.Inspect(fd, func(x ast.Node) bool {
						if id, ok := x.(*ast.Ident); ok {
							enclosing[id] = fd
						}
						return true
					})
				})
				confirmed := map[string]bool{"NewGenerator": true, "GenerateFile": true, "IsLocalMessage": true}
				for changed := true; changed; {
					changed = false
					eachFunc(p, func(fd *ast.FuncDecl) {
						o := p.TypesInfo.Defs[fd.Name]
						if o == nil || ast.IsExported(fd.Name.Name) || confirmed[fd.Name.Name] || fd.Recv != nil {
							return
						}
						n, all := 0, true
						for id, obj := range p.TypesInfo.Uses {
							if obj != o {
								continue
							}
							n++
							ef := enclosing[id]
							if ef == nil || !confirmed[ef.Name.Name] {
								all = false
							}
						}
						if n > 0 && all {
							confirmed[fd.Name.Name] = true
							changed = true
						}
					})
				}
				eachFunc(p, func(fd *ast.FuncDecl) {
					if !confirmed[fd.Name.Name] {
						return
					}
					ast.Inspect(fd, func(x ast.Node) bool {
						if id, ok := x.(*ast.Ident); ok {
							allowed[id] = true
						}
						return true
					})
				})
			}
			// unexported functions that nothing refers to any more (their calls were inlined by the helper normalisation)
			// cannot run: what they read is read, and judged, at the place they were inlined into
			usedFn := map[types.Object]bool{}
			for _, obj := range p.TypesInfo.Uses {
				if _, isF := obj.(*types.Func); isF {
					usedFn[obj] = true
				}
			}
			eachFunc(p, func(fd *ast.FuncDecl) {
				o := p.TypesInfo.Defs[fd.Name]
				if o == nil || ast.IsExported(fd.Name.Name) || usedFn[o] || fd.Name.Name == "main" || fd.Name.Name == "init" {
					return
				}
				ast.Inspect(fd, func(x ast.Node) bool {
					if id, ok := x.(*ast.Ident); ok {
						allowed[id] = true
					}
					return true
				})
			})
			var ids []*ast.Ident
			for id, obj := range p.TypesInfo.Uses {
				if _, ok := watch[obj]; ok && !allowed[id] {
					ids = append(ids, id)
				}
			}
			sort.Slice(ids, func(i, j int) bool { return ids[i].Pos() < ids[j].Pos() })
			for _, id := range ids {
				w := watch[p.TypesInfo.Uses[id]]
				n++
				c.Fail("T.pure", fmt.Sprintf("%s reads %s #%d", rel, w, n), "template reads state that depends on the set of co-generated files", c.PosStr(p.Fset, id.Pos()), src)
			}
			c.Ok("T.pure", rel+" cross-file state readers", fmt.Sprintf("%d readers of LocalPackages/Ext/IsLocalMessage, protogen File.Generate / the request's file_to_generate", n), "", src)
		}
	}
	// sort comparators in L-gen: strict '<' on a key that is unique among the sorted elements
	checkSorts(c)
}

func identOf(e ast.Expr) *ast.Ident {
	id, _ := e.(*ast.Ident)
	return id
}

// classifyMapRange recognises the confirmed order-insensitive idioms.
func classifyMapRange(p *packages.Package, fd *ast.FuncDecl, rs *ast.RangeStmt) (string, string) {
	info := p.TypesInfo
	// no emission inside the body
	emits := false
	ast.Inspect(rs.Body, func(x ast.Node) bool {
		if call, ok := x.(*ast.CallExpr); ok {
			if isPMethod(core.CalleeObj(info, call)) {
				emits = true
			}
		}
		return true
	})
	if emits {
		return "", "the loop body emits code"
	}
	// (1) collect-then-sort
	if len(rs.Body.List) == 1 {
		if as, ok := rs.Body.List[0].(*ast.AssignStmt); ok && len(as.Lhs) == 1 && len(as.Rhs) == 1 {
			if call, ok := as.Rhs[0].(*ast.CallExpr); ok {
				if id, ok := call.Fun.(*ast.Ident); ok && id.Name == "append" && len(call.Args) >= 1 {
					dst, ok1 := as.Lhs[0].(*ast.Ident)
					a0, ok2 := call.Args[0].(*ast.Ident)
					if ok1 && ok2 && info.ObjectOf(dst) == info.ObjectOf(a0) {
						// the next use of dst after the loop must be a sort call
						if sortedNext(info, fd, rs, info.ObjectOf(dst)) {
							return "collect-then-sort (" + dst.Name + ")", ""
						}
						return "", "collected slice " + dst.Name + " is not sorted before its next use"
					}
				}
			}
			// (2) writes into another map / set
			if ix, ok := as.Lhs[0].(*ast.IndexExpr); ok {
				if t := info.TypeOf(ix.X); t != nil {
					if _, isMap := t.Underlying().(*types.Map); isMap {
						return "writes into another map", ""
					}
				}
			}
		}
		// (3) unique-match scan: single `if` (no else) whose body only assigns locals
		if is, ok := rs.Body.List[0].(*ast.IfStmt); ok && is.Else == nil && is.Init == nil {
			onlyAssign := true
			for i, s := range is.Body.List {
				// the match is unique, so leaving the loop at the match (return / break) changes nothing
				if i == len(is.Body.List)-1 {
					if _, isRet := s.(*ast.ReturnStmt); isRet {
						continue
					}
					if br, isBr := s.(*ast.BranchStmt); isBr && br.Tok == token.BREAK && br.Label == nil {
						continue
					}
				}
				as, ok := s.(*ast.AssignStmt)
				if !ok {
					onlyAssign = false
					break
				}
				for _, l := range as.Lhs {
					if _, ok := l.(*ast.Ident); !ok {
						onlyAssign = false
					}
				}
			}
			// frozen site: the match key must be a descriptor full name (unique within a file)
			isFullName := strings.Contains(types.ExprString(is.Cond), "FullName()") && strings.Contains(types.ExprString(is.Cond), "==")
			if onlyAssign && isFullName {
				return "unique-match scan on a descriptor full name (full names are unique within a file)", ""
			}
		}
	}
	return "", "body is none of: collect-then-sort, write-into-map, unique-match scan"
}

// sortedNext: after the range statement, the first statement mentioning obj is a sort call on it.
func sortedNext(info *types.Info, fd *ast.FuncDecl, rs *ast.RangeStmt, obj types.Object) bool {
	// the statement list that holds the loop: a block, or the body of a case clause (inlined helpers live in one)
	var list []ast.Stmt
	ast.Inspect(fd.Body, func(x ast.Node) bool {
		var l []ast.Stmt
		switch b := x.(type) {
		case *ast.BlockStmt:
			l = b.List
		case *ast.CaseClause:
			l = b.Body
		case *ast.CommClause:
			l = b.Body
		}
		for _, s := range l {
			if s == ast.Stmt(rs) {
				list = l
			}
		}
		return true
	})
	if list == nil {
		return false
	}
	after := false
	for _, s := range list {
		if s == ast.Stmt(rs) {
			after = true
			continue
		}
		if !after {
			continue
		}
		mentions := false
		ast.Inspect(s, func(x ast.Node) bool {
			if id, ok := x.(*ast.Ident); ok && info.ObjectOf(id) == obj {
				mentions = true
			}
			return true
		})
		if !mentions {
			continue
		}
		es, ok := s.(*ast.ExprStmt)
		if !ok {
			return false
		}
		call, ok := es.X.(*ast.CallExpr)
		if !ok {
			return false
		}
		q := core.QualName(core.CalleeObj(info, call))
		switch q {
		case "sort.Slice", "sort.SliceStable", "sort.Strings", "sort.Ints", "sort.Sort", "sort.Stable", "slices.Sort", "slices.SortFunc", "slices.SortStableFunc":
			if id, ok := call.Args[0].(*ast.Ident); ok && info.ObjectOf(id) == obj {
				return true
			}
		}
		return false
	}
	return false
}

// checkSorts verifies the comparators of sort.Slice calls in L-gen: `a[i].K < a[j].K`
// (strict order on one key); equal keys would make the unstable sort's result depend on the input order.
func checkSorts(c *core.Ctx) {
	const src = "S0"
	n := 0
	for _, rel := range LGen {
		p := c.Pkg(rel)
		if p == nil {
			continue
		}
		info := p.TypesInfo
		eachFunc(p, func(fd *ast.FuncDecl) {
			k := 0
			ast.Inspect(fd.Body, func(x ast.Node) bool {
				call, ok := x.(*ast.CallExpr)
				if !ok || core.QualName(core.CalleeObj(info, call)) != "sort.Slice" || len(call.Args) != 2 {
					return true
				}
				n++
				k++
				con := fmt.Sprintf("%s.%s sort.Slice#%d(%s)", rel, fnName(fd), k, types.ExprString(call.Args[0]))
				fl, ok := call.Args[1].(*ast.FuncLit)
				okLess, why := false, "comparator is not a function literal"
				if ok && len(fl.Body.List) == 1 {
					if rs, ok := fl.Body.List[0].(*ast.ReturnStmt); ok && len(rs.Results) == 1 {
						if be, ok := rs.Results[0].(*ast.BinaryExpr); ok && be.Op == token.LSS {
							l, r := types.ExprString(be.X), types.ExprString(be.Y)
							ps := fl.Type.Params.List
							var pn []string
							for _, f := range ps {
								for _, nm := range f.Names {
									pn = append(pn, nm.Name)
								}
							}
							if len(pn) == 2 && strings.ReplaceAll(l, "["+pn[0]+"]", "[#]") == strings.ReplaceAll(r, "["+pn[1]+"]", "[#]") && strings.Contains(l, "["+pn[0]+"]") {
								okLess = true
								why = "strict '<' on " + strings.ReplaceAll(l, "["+pn[0]+"]", "[·]")
							} else {
								why = "comparator does not compare the same key of elements i and j"
							}
						} else {
							why = "comparator is not a single '<' comparison"
						}
					}
				}
				c.Check(okLess, "T.det", con, why, "sort comparator is not a strict order on a single key: "+why, c.PosStr(p.Fset, call.Pos()), src)
				return true
			})
		})
	}
	c.Stat("T.det sort.Slice calls", n)
}

// ---------------------------------------------------------------------------
// T.flow (C12): must-pass-through guards in the driver

func RunFlow(c *core.Ctx) {
	const src = "S0"
	cmdp := c.Pkg("cmd/protoc-gen-go-pulsar")
	genp := c.Pkg("generator")
	if cmdp == nil || genp == nil {
		c.Fail("T.anchor", "cmd/generator", "package not found", "", src)
		return
	}
	// (a) every loop over plugin.Files in cmd starts with `if !file.Generate { continue }`
	nLoops := 0
	eachFunc(cmdp, func(fd *ast.FuncDecl) {
		ast.Inspect(fd.Body, func(x ast.Node) bool {
			rs, ok := x.(*ast.RangeStmt)
			if !ok {
				return true
			}
			sel, ok := rs.X.(*ast.SelectorExpr)
			if !ok || sel.Sel.Name != "Files" {
				return true
			}
			v, _ := rs.Value.(*ast.Ident)
			nLoops++
			con := fmt.Sprintf("cmd.%s loop over %s #%d", fnName(fd), types.ExprString(rs.X), nLoops)
			okGuard := false
			if v != nil && len(rs.Body.List) > 0 {
				if is, ok := rs.Body.List[0].(*ast.IfStmt); ok && is.Else == nil && is.Init == nil {
					// `!file.Generate`, alone or as one disjunct among other (call-only-on-descriptors) reasons to skip the file
					notGen := false
					var disj func(e ast.Expr)
					disj = func(e ast.Expr) {
						e = ast.Unparen(e)
						if be, ok := e.(*ast.BinaryExpr); ok && be.Op == token.LOR {
							disj(be.X)
							disj(be.Y)
							return
						}
						if ue, ok := e.(*ast.UnaryExpr); ok && ue.Op == token.NOT {
							if s2, ok := ast.Unparen(ue.X).(*ast.SelectorExpr); ok && s2.Sel.Name == "Generate" {
								if id, ok := s2.X.(*ast.Ident); ok && cmdp.TypesInfo.ObjectOf(id) == cmdp.TypesInfo.ObjectOf(v) {
									notGen = true
								}
							}
						}
					}
					disj(is.Cond)
					if notGen && len(is.Body.List) == 1 {
						if br, ok := is.Body.List[0].(*ast.BranchStmt); ok && br.Tok == token.CONTINUE && br.Label == nil {
							okGuard = true
						}
					}
				}
			}
			// every other reason to skip a file in this loop is a property of the file itself (its descriptor), not of the
			// request's parameters or of what was processed before
			if v != nil {
				var others []string
				for _, st := range rs.Body.List {
					is, ok := st.(*ast.IfStmt)
					if !ok || len(is.Body.List) == 0 {
						continue
					}
					br, isBr := is.Body.List[len(is.Body.List)-1].(*ast.BranchStmt)
					_, isRet := is.Body.List[len(is.Body.List)-1].(*ast.ReturnStmt)
					if !(isBr && (br.Tok == token.CONTINUE || br.Tok == token.BREAK)) && !isRet {
						continue
					}
					ast.Inspect(is.Cond, func(q ast.Node) bool {
						id, ok := q.(*ast.Ident)
						if !ok {
							return true
						}
						if o, ok := cmdp.TypesInfo.Uses[id].(*types.Var); ok && !o.IsField() && o != cmdp.TypesInfo.ObjectOf(v) {
							others = append(others, fmt.Sprintf("%s (line %d)", id.Name, cmdp.Fset.Position(id.Pos()).Line))
						}
						return true
					})
				}
				c.Check(len(others) == 0, "T.flow", con+" skips", "files are skipped for reasons of their own only (descriptor queries on the loop variable)",
					"a file is skipped depending on something other than the file itself: "+strings.Join(others, ", ")+" — the pass then applies to some requests and not to others", c.PosStr(cmdp.Fset, rs.Pos()), src)
			}
			c.Check(okGuard, "T.flow", con, "files not requested are skipped before anything is generated or renamed", "loop over all files does not start with `if !file.Generate { continue }`: files that were not requested produce output (or are rewritten)", c.PosStr(cmdp.Fset, rs.Pos()), src)
			return true
		})
	})
	c.Check(nLoops >= 2, "T.flow", "cmd loops over plugin.Files", fmt.Sprintf("%d loops", nLoops), "expected the rename loop and the generation loop over plugin.Files", "", src)
	// (b) generator.GenerateFile: first statement rejects non-proto3
	var gfDecl *ast.FuncDecl
	eachFunc(genp, func(fd *ast.FuncDecl) {
		if fnName(fd) == "Generator.GenerateFile" {
			gfDecl = fd
		}
	})
	if gfDecl == nil {
		c.Fail("T.anchor", "generator.Generator.GenerateFile", "not found", "", src)
	} else {
		okP3 := false
		if len(gfDecl.Body.List) > 0 {
			if is, ok := gfDecl.Body.List[0].(*ast.IfStmt); ok {
				cs := types.ExprString(is.Cond)
				if strings.Contains(cs, "Syntax() != protoreflect.Proto3") && len(is.Body.List) == 1 {
					if rs, ok := is.Body.List[0].(*ast.ReturnStmt); ok && len(rs.Results) == 1 && types.ExprString(rs.Results[0]) == "false" {
						okP3 = true
					}
				}
			}
		}
		c.Check(okP3, "T.flow", "generator.GenerateFile proto3 gate", "non-proto3 files return false before any feature runs", "GenerateFile does not start by rejecting non-proto3 files", c.PosStr(genp.Fset, gfDecl.Pos()), src)
	}
	// (c) the result of GenerateFile decides gf.Skip()
	okSkip := false
	eachFunc(cmdp, func(fd *ast.FuncDecl) {
		ast.Inspect(fd.Body, func(x ast.Node) bool {
			is, ok := x.(*ast.IfStmt)
			if !ok {
				return true
			}
			if ue, ok := is.Cond.(*ast.UnaryExpr); ok && ue.Op == token.NOT {
				if call, ok := ue.X.(*ast.CallExpr); ok && strings.HasSuffix(core.QualName(core.CalleeObj(cmdp.TypesInfo, call)), "Generator.GenerateFile") {
					for _, s := range is.Body.List {
						if es, ok := s.(*ast.ExprStmt); ok {
							if c2, ok := es.X.(*ast.CallExpr); ok && strings.HasSuffix(core.QualName(core.CalleeObj(cmdp.TypesInfo, c2)), "GeneratedFile.Skip") {
								okSkip = true
							}
						}
					}
				}
			}
			return true
		})
	})
	c.Check(okSkip, "T.flow", "cmd skip when nothing generated", "`if !gen.GenerateFile(...) { gf.Skip() }`", "a file for which no feature generated code is not skipped", "", src)
	// (d) error discipline in cmd and generator: every call with an error result is followed by `if err != nil { return …, err }`
	for _, p := range []*packages.Package{cmdp, genp} {
		info := p.TypesInfo
		eachFunc(p, func(fd *ast.FuncDecl) {
			var walk func(list []ast.Stmt)
			walk = func(list []ast.Stmt) {
				for i, s := range list {
					switch t := s.(type) {
					case *ast.AssignStmt:
						if len(t.Rhs) == 1 {
							if call, ok := t.Rhs[0].(*ast.CallExpr); ok {
								if tup, ok := info.TypeOf(call).(*types.Tuple); ok && tup.Len() >= 1 && tup.At(tup.Len()-1).Type().String() == "error" {
									con := fmt.Sprintf("%s.%s error of %s", p.Name, fnName(fd), core.QualName(core.CalleeObj(info, call)))
									errID, _ := t.Lhs[len(t.Lhs)-1].(*ast.Ident)
									okE := false
									if errID != nil && errID.Name != "_" && i+1 < len(list) {
										// handed to the caller as it is: `…, err = f(); return …, err`
										if rs, ok := list[i+1].(*ast.ReturnStmt); ok && len(rs.Results) >= 1 && types.ExprString(rs.Results[len(rs.Results)-1]) == errID.Name {
											okE = true
										}
										if is, ok := list[i+1].(*ast.IfStmt); ok {
											if be, ok := is.Cond.(*ast.BinaryExpr); ok && be.Op == token.NEQ && types.ExprString(be.X) == errID.Name && types.ExprString(be.Y) == "nil" && len(is.Body.List) >= 1 {
												if rs, ok := is.Body.List[len(is.Body.List)-1].(*ast.ReturnStmt); ok && len(rs.Results) >= 1 && types.ExprString(rs.Results[len(rs.Results)-1]) == errID.Name {
													okE = true
												}
											}
										}
									}
									c.Check(okE, "T.flow", con, "error is returned to the caller", "error result is not propagated by `if err != nil { return …, err }`", c.PosStr(p.Fset, call.Pos()), src)
								}
							}
						}
					case *ast.ExprStmt:
						if call, ok := t.X.(*ast.CallExpr); ok {
							if tt := info.TypeOf(call); tt != nil && tt.String() == "error" {
								c.Fail("T.flow", fmt.Sprintf("%s.%s error of %s", p.Name, fnName(fd), core.QualName(core.CalleeObj(info, call))), "error result is dropped", c.PosStr(p.Fset, call.Pos()), src)
							}
						}
					case *ast.BlockStmt:
						walk(t.List)
					case *ast.IfStmt:
						walk(t.Body.List)
						if b, ok := t.Else.(*ast.BlockStmt); ok {
							walk(b.List)
						}
					case *ast.ForStmt:
						walk(t.Body.List)
					case *ast.RangeStmt:
						walk(t.Body.List)
					case *ast.ReturnStmt:
					}
				}
			}
			walk(fd.Body.List)
			ast.Inspect(fd.Body, func(x ast.Node) bool {
				if fl, ok := x.(*ast.FuncLit); ok {
					walk(fl.Body.List)
				}
				return true
			})
		})
	}
	// findFeatures: unknown name -> error return
	var ff *ast.FuncDecl
	eachFunc(genp, func(fd *ast.FuncDecl) {
		if fd.Name.Name == "findFeatures" {
			ff = fd
		}
	})
	okUnknown := false
	if ff != nil {
		// findFeatures itself or a function of the package it calls (one level): a failed map lookup (`!ok`) leads to
		// an error built by fmt.Errorf that leaves the function (return) or, after helper normalisation, the inlined body
		bodies := []*ast.BlockStmt{ff.Body}
		ast.Inspect(ff.Body, func(x ast.Node) bool {
			if call, ok := x.(*ast.CallExpr); ok {
				if f, ok := core.CalleeObj(genp.TypesInfo, call).(*types.Func); ok && f.Pkg() == genp.Types {
					eachFunc(genp, func(fd *ast.FuncDecl) {
						if genp.TypesInfo.Defs[fd.Name] == types.Object(f) && fd.Body != nil {
							bodies = append(bodies, fd.Body)
						}
					})
				}
			}
			return true
		})
		for _, body := range bodies {
			ast.Inspect(body, func(x ast.Node) bool {
				is, ok := x.(*ast.IfStmt)
				if !ok {
					return true
				}
				ue, ok := is.Cond.(*ast.UnaryExpr)
				if !ok || ue.Op != token.NOT || len(is.Body.List) == 0 {
					return true
				}
				// the negated value is the comma-ok of a map lookup
				okID, isID := ast.Unparen(ue.X).(*ast.Ident)
				if !isID {
					return true
				}
				fromLookup := false
				check := func(as *ast.AssignStmt) {
					if as != nil && len(as.Lhs) == 2 && len(as.Rhs) == 1 {
						if l, ok := as.Lhs[1].(*ast.Ident); ok && genp.TypesInfo.ObjectOf(l) == genp.TypesInfo.ObjectOf(okID) {
							if _, isIdx := ast.Unparen(as.Rhs[0]).(*ast.IndexExpr); isIdx {
								fromLookup = true
							}
						}
					}
				}
				if as, ok := is.Init.(*ast.AssignStmt); ok {
					check(as)
				}
				ast.Inspect(body, func(y ast.Node) bool {
					if as, ok := y.(*ast.AssignStmt); ok {
						check(as)
					}
					return true
				})
				if !fromLookup {
					return true
				}
				hasErrorf, leaves := false, false
				ast.Inspect(is.Body, func(y ast.Node) bool {
					if call, ok := y.(*ast.CallExpr); ok && core.QualName(core.CalleeObj(genp.TypesInfo, call)) == "fmt.Errorf" {
						hasErrorf = true
					}
					return true
				})
				last := is.Body.List[len(is.Body.List)-1]
				if blk, ok := last.(*ast.BlockStmt); ok && len(blk.List) > 0 {
					last = blk.List[len(blk.List)-1]
				}
				switch t := last.(type) {
				case *ast.ReturnStmt:
					leaves = true
				case *ast.BranchStmt:
					leaves = t.Tok == token.BREAK && t.Label != nil
				}
				if hasErrorf && leaves {
					okUnknown = true
				}
				return true
			})
		}
	}
	c.Check(okUnknown, "T.flow", "generator.findFeatures unknown feature", "an unknown feature name returns an error", "unknown feature names do not produce an error", "", src)
}

// specialCaseSwitch: sw is a statement of some block, each of its arms ends in return or panic, and the statement
// that follows it in that block exists and is not itself a bare panic.
func specialCaseSwitch(fd *ast.FuncDecl, sw *ast.SwitchStmt) bool {
	for _, cs := range sw.Body.List {
		cc := cs.(*ast.CaseClause)
		if len(cc.Body) == 0 {
			return false
		}
		switch t := cc.Body[len(cc.Body)-1].(type) {
		case *ast.ReturnStmt:
		case *ast.ExprStmt:
			call, ok := t.X.(*ast.CallExpr)
			if !ok {
				return false
			}
			if id, ok := call.Fun.(*ast.Ident); !ok || id.Name != "panic" {
				return false
			}
		default:
			return false
		}
	}
	found := false
	ast.Inspect(fd.Body, func(n ast.Node) bool {
		var list []ast.Stmt
		switch t := n.(type) {
		case *ast.BlockStmt:
			list = t.List
		case *ast.CaseClause:
			list = t.Body
		}
		for i, st := range list {
			if st == ast.Stmt(sw) && i+1 < len(list) {
				if es, ok := list[i+1].(*ast.ExprStmt); ok {
					if call, ok := es.X.(*ast.CallExpr); ok {
						if id, ok := call.Fun.(*ast.Ident); ok && id.Name == "panic" {
							return false
						}
					}
				}
				found = true
			}
		}
		return true
	})
	return found
}

// runCarriedState (T.pure, driver): rewriteMessageField is applied to every message of every generated file with
// state handed from call to call. The only state that may travel that way is the set of messages already processed:
// a map parameter that is indexed by the message's own full name (to return early, and to mark the message) and passed
// on to the recursive calls. Anything else that survives from one message — hence from one file — to the next (a set of
// names taken so far, a counter) makes what is generated for a file depend on which files came before it.
func runCarriedState(c *core.Ctx, p *packages.Package, rel, src string) {
	info := p.TypesInfo
	var rw *ast.FuncDecl
	eachFunc(p, func(fd *ast.FuncDecl) {
		if fd.Name.Name == "rewriteMessageField" && fd.Recv == nil {
			rw = fd
		}
	})
	if rw == nil || rw.Body == nil {
		return // T.names reports the lost anchor
	}
	var params []types.Object
	for _, fl := range rw.Type.Params.List {
		for _, n := range fl.Names {
			params = append(params, info.Defs[n])
		}
	}
	if len(params) == 0 {
		return
	}
	msg := params[0]
	// locals bound once to message.Desc.FullName()
	isFullName := func(x ast.Expr) bool {
		x = ast.Unparen(x)
		if call, ok := x.(*ast.CallExpr); ok && len(call.Args) == 0 {
			if sel, ok := call.Fun.(*ast.SelectorExpr); ok && sel.Sel.Name == "FullName" {
				if d, ok := ast.Unparen(sel.X).(*ast.SelectorExpr); ok && d.Sel.Name == "Desc" {
					if id, ok := ast.Unparen(d.X).(*ast.Ident); ok && info.ObjectOf(id) == msg {
						return true
					}
				}
			}
		}
		return false
	}
	nameLocals := map[types.Object]bool{}
	assigns := map[types.Object]int{}
	ast.Inspect(rw.Body, func(n ast.Node) bool {
		if as, ok := n.(*ast.AssignStmt); ok {
			for i, l := range as.Lhs {
				if id, ok := l.(*ast.Ident); ok {
					o := info.ObjectOf(id)
					assigns[o]++
					if len(as.Lhs) == len(as.Rhs) && isFullName(as.Rhs[i]) {
						nameLocals[o] = true
					}
				}
			}
		}
		return true
	})
	keyOK := func(x ast.Expr) bool {
		if isFullName(x) {
			return true
		}
		id, ok := ast.Unparen(x).(*ast.Ident)
		return ok && nameLocals[info.ObjectOf(id)] && assigns[info.ObjectOf(id)] == 1
	}
	parents := map[ast.Node]ast.Node{}
	var stack []ast.Node
	ast.Inspect(rw.Body, func(n ast.Node) bool {
		if n == nil {
			stack = stack[:len(stack)-1]
			return true
		}
		if len(stack) > 0 {
			parents[n] = stack[len(stack)-1]
		}
		stack = append(stack, n)
		return true
	})
	for pi, po := range params[1:] {
		if po == nil {
			continue
		}
		con := fmt.Sprintf("%s rewriteMessageField parameter %s", rel, po.Name())
		switch po.Type().Underlying().(type) {
		case *types.Basic:
			// a value: nothing travels back to the caller
			c.Ok("T.pure", con, "passed by value: nothing is carried to the next message", c.PosStr(p.Fset, po.Pos()), src)
			continue
		}
		var bad []string
		ast.Inspect(rw.Body, func(n ast.Node) bool {
			id, ok := n.(*ast.Ident)
			if !ok || info.Uses[id] != po {
				return true
			}
			par := parents[id]
			for {
				if pe, ok := par.(*ast.ParenExpr); ok {
					par = parents[pe]
					continue
				}
				break
			}
			switch t := par.(type) {
			case *ast.IndexExpr:
				if ast.Unparen(t.X) == ast.Expr(id) && keyOK(t.Index) {
					return true
				}
				bad = append(bad, fmt.Sprintf("indexed by %s (line %d)", types.ExprString(t.Index), p.Fset.Position(t.Pos()).Line))
			case *ast.CallExpr:
				if f, ok := ast.Unparen(t.Fun).(*ast.Ident); ok && info.Uses[f] == info.Defs[rw.Name] && pi+1 < len(t.Args) && ast.Unparen(t.Args[pi+1]) == ast.Expr(id) {
					return true
				}
				bad = append(bad, fmt.Sprintf("handed to %s (line %d)", types.ExprString(t.Fun), p.Fset.Position(t.Pos()).Line))
			default:
				bad = append(bad, fmt.Sprintf("used in %T (line %d)", par, p.Fset.Position(id.Pos()).Line))
			}
			return true
		})
		c.Check(len(bad) == 0, "T.pure", con, "the set of processed messages: indexed by the message's own full name only, and passed on to the recursive calls",
			"state other than the set of processed messages is carried from one message (and file) to the next, so what is generated for a file depends on the files before it: "+strings.Join(bad, "; "), c.PosStr(p.Fset, po.Pos()), src)
	}
}

// runMarshalDet (T.det): whatever the generator serialises ends up in its output (the embedded raw descriptor). A
// message with map fields — custom options are linked into real messages and may hold maps — serialises in Go's
// map iteration order unless Deterministic is set: every proto marshal call in the generator packages goes through
// MarshalOptions with Deterministic: true.
func runMarshalDet(c *core.Ctx, p *packages.Package, rel, src string) int {
	info := p.TypesInfo
	n := 0
	detLit := func(x ast.Expr) bool {
		cl, ok := ast.Unparen(x).(*ast.CompositeLit)
		if !ok {
			return false
		}
		for _, e := range cl.Elts {
			if kv, ok := e.(*ast.KeyValueExpr); ok {
				if k, ok := kv.Key.(*ast.Ident); ok && k.Name == "Deterministic" {
					if tv, ok := info.Types[kv.Value]; ok && tv.Value != nil && tv.Value.Kind() == constant.Bool && constant.BoolVal(tv.Value) {
						return true
					}
				}
			}
		}
		return false
	}
	eachFunc(p, func(fd *ast.FuncDecl) {
		// single-definition locals bound to an options literal
		defs := map[types.Object]ast.Expr{}
		cnt := map[types.Object]int{}
		ast.Inspect(fd, func(x ast.Node) bool {
			if as, ok := x.(*ast.AssignStmt); ok && len(as.Lhs) == len(as.Rhs) {
				for i, l := range as.Lhs {
					if id, ok := l.(*ast.Ident); ok {
						o := info.ObjectOf(id)
						cnt[o]++
						defs[o] = as.Rhs[i]
					}
				}
			}
			return true
		})
		ast.Inspect(fd, func(x ast.Node) bool {
			call, ok := x.(*ast.CallExpr)
			if !ok {
				return true
			}
			q := core.QualName(core.CalleeObj(info, call))
			con := fmt.Sprintf("%s.%s %s", rel, fnName(fd), clip(types.ExprString(call.Fun), 60))
			// a message whose Go type holds no map anywhere (the plugin's response: names, contents, annotations) serialises
			// the same way with or without the option
			if strings.HasPrefix(q, "google.golang.org/protobuf/proto.Marshal") || strings.HasPrefix(q, "google.golang.org/protobuf/proto.MarshalOptions.Marshal") {
				if len(call.Args) > 0 && !mayHoldMap(info.TypeOf(call.Args[len(call.Args)-1]), map[types.Type]bool{}) {
					n++
					c.Ok("T.det", con, "the marshalled message type holds no map field (nor extensions): its encoding does not depend on map iteration order", c.PosStr(p.Fset, call.Pos()), src)
					return true
				}
			}
			switch q {
			case "google.golang.org/protobuf/proto.Marshal":
				n++
				c.Fail("T.det", con, "proto.Marshal serialises map fields in Go's map iteration order: what the generator embeds can differ from run to run", c.PosStr(p.Fset, call.Pos()), src)
			case "google.golang.org/protobuf/proto.MarshalOptions.Marshal", "google.golang.org/protobuf/proto.MarshalOptions.MarshalAppend", "google.golang.org/protobuf/proto.MarshalOptions.MarshalState":
				n++
				sel, _ := ast.Unparen(call.Fun).(*ast.SelectorExpr)
				ok := false
				if sel != nil {
					ok = detLit(sel.X)
					if id, isID := ast.Unparen(sel.X).(*ast.Ident); isID && !ok {
						if o := info.ObjectOf(id); cnt[o] == 1 {
							ok = detLit(defs[o])
						}
					}
				}
				c.Check(ok, "T.det", con, "marshals with Deterministic: true", "the generator serialises a message without Deterministic: true: map fields (custom options may hold them) come out in Go's map iteration order, so what is embedded can differ from run to run", c.PosStr(p.Fset, call.Pos()), src)
			}
			return true
		})
	})
	return n
}

// mayHoldMap: values of the type can contain a map (a map field, extension fields, or anything behind an interface).
func mayHoldMap(t types.Type, seen map[types.Type]bool) bool {
	if t == nil || seen[t] {
		return false
	}
	seen[t] = true
	switch u := t.Underlying().(type) {
	case *types.Map, *types.Interface:
		return true
	case *types.Pointer:
		return mayHoldMap(u.Elem(), seen)
	case *types.Slice:
		return mayHoldMap(u.Elem(), seen)
	case *types.Array:
		return mayHoldMap(u.Elem(), seen)
	case *types.Struct:
		for i := 0; i < u.NumFields(); i++ {
			f := u.Field(i)
			// protoimpl bookkeeping that never reaches the wire
			if n := f.Name(); n == "state" || n == "sizeCache" || n == "unknownFields" {
				continue
			}
			if mayHoldMap(f.Type(), seen) {
				return true
			}
		}
	}
	return false
}
