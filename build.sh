#!/bin/sh
# Builds the checker offline from files on disk + module cache.
cd /verif/checker && GOFLAGS=-mod=mod GOPROXY=off GOSUMDB=off GOTOOLCHAIN=local GOWORK=off go build -o /verif/bin/pulsarcheck ./cmd/pulsarcheck
