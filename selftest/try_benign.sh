#!/bin/bash
# usage: try_benign.sh <patch.diff>  — applies a behaviour-preserving patch to a scratch copy of /repo and runs all
# 19 checks (8 at a time): each must stay silent (exit 0). Prints the alarms, exit 1 if any.
set -u
export GOFLAGS=-mod=mod GOPROXY=off GOSUMDB=off GOTOOLCHAIN=local; unset GOWORK
patch=$1
D=$(mktemp -d /tmp/tryb.XXXXXX)
rsync -a --exclude .git /repo/ $D/repo/
(cd $D/repo && git init -q . 2>/dev/null; git apply --whitespace=nowarn "$patch") || { echo "PATCH DOES NOT APPLY"; rm -rf $D; exit 3; }
(cd $D/repo && go build ./... 2>&1 | head -5)
one() {
  p=$1; mkdir -p $D/v_$p && cp /verif/KNOWN_FINDINGS.json $D/v_$p/
  out=$(VERIF_REPO=$D/repo VERIF_DIR=$D/v_$p ${PULSARCHECK:-/verif/bin/pulsarcheck} -property $p 2>&1); r=$?
  if [ $r -ne 0 ]; then echo "ALARM $p: $(echo "$out" | grep -v "^VIOLATION\|^KNOWN-FINDING" | head -${LINES_MAX:-2} | cut -c1-${WIDTH:-360})" > $D/res_$p; fi
}
export -f one; export D
printf '%s\n' C01 C02 C03 C04 C05 C06 C07 C08 C09 C10 C11 C12 C13 C14 C15 C16 C17 C18 C19 | xargs -P 8 -I{} bash -c 'one {}'
rc=0
if ls $D/res_* >/dev/null 2>&1; then cat $D/res_*; rc=1; else echo "all 19 silent"; fi
rm -rf $D
exit $rc
