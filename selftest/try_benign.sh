#!/bin/bash
# usage: try_benign.sh <patch.diff>  — applies a behaviour-preserving patch to a scratch copy of /repo and runs all
# 19 checks: each must stay silent (exit 0). Prints the alarms, exit 1 if any.
set -u
export GOFLAGS=-mod=mod GOPROXY=off GOSUMDB=off GOTOOLCHAIN=local; unset GOWORK
patch=$1
D=$(mktemp -d /tmp/tryb.XXXXXX)
rsync -a --exclude .git /repo/ $D/repo/
mkdir -p $D/v && cp /verif/KNOWN_FINDINGS.json $D/v/
(cd $D/repo && git init -q . 2>/dev/null; git apply --whitespace=nowarn "$patch") || { echo "PATCH DOES NOT APPLY"; rm -rf $D; exit 3; }
(cd $D/repo && go build ./... 2>&1 | head -5)
rc=0
for p in C01 C02 C03 C04 C05 C06 C07 C08 C09 C10 C11 C12 C13 C14 C15 C16 C17 C18 C19; do
  out=$(VERIF_REPO=$D/repo VERIF_DIR=$D/v /verif/bin/pulsarcheck -property $p 2>&1); r=$?
  if [ $r -ne 0 ]; then rc=1; echo "ALARM $p: $(echo "$out" | grep -v "^VIOLATION\|^KNOWN-FINDING" | head -${LINES_MAX:-2} | cut -c1-${WIDTH:-360})"; fi
done
[ $rc -eq 0 ] && echo "all 19 silent"
rm -rf $D
exit $rc
