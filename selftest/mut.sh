#!/bin/bash
# usage: mut.sh <property[,property..]> <file-relative-to-repo> <python-expr-old> <python-expr-new>
# Applies one textual replacement (first occurrence unless COUNT=all) to a scratch copy of /repo and runs the checks on it.
set -u
props=$1; file=$2; old=$3; new=$4
D=$(mktemp -d /tmp/mut.XXXXXX)
rsync -a --exclude .git /repo/ $D/repo/
mkdir -p $D/v && cp /verif/KNOWN_FINDINGS.json $D/v/
python3 - "$D/repo/$file" "$old" "$new" <<'PY' || { echo "MUTATION NOT APPLIED"; rm -rf $D; exit 3; }
import sys,os
p,old,new=sys.argv[1:4]
s=open(p).read()
if old not in s: sys.exit(1)
if os.environ.get('COUNT')=='all': s=s.replace(old,new)
else: s=s.replace(old,new,1)
open(p,'w').write(s)
PY
(cd $D/repo && go build ./... 2>&1 | head -5)
rc=0
for p in ${props//,/ }; do
  out=$(VERIF_REPO=$D/repo VERIF_DIR=$D/v /verif/bin/pulsarcheck -property $p 2>&1); r=$?
  echo "$out" | grep -v "^VIOLATION\|^KNOWN-FINDING" | head -${LINES_MAX:-4} | cut -c1-${WIDTH:-420}
  echo "== $p exit=$r"
  [ $r -ne 0 ] && rc=1
done
rm -rf $D
exit $rc
