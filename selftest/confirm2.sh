#!/bin/bash
# usage: confirm2.sh <worktree> <mutant-dir (absolute)>   — for mutants that ship `demo.sh <repo-root>`
export GOFLAGS=-mod=mod GOPROXY=off GOSUMDB=off GOTOOLCHAIN=local; unset GOWORK
wt=$1; mut=$2
cd $wt || exit 9
git checkout -q -- . 2>/dev/null
clean_demo=fail; build=fail; suite=fail; mut_demo=pass
( timeout 900 bash $mut/demo.sh $wt ) > /tmp/c2_clean.log 2>&1 && clean_demo=pass
git checkout -q -- .
git apply $mut/patch.diff || { echo "{\"mutant\":\"$mut\",\"error\":\"patch does not apply\"}"; exit 1; }
go build ./... > /tmp/c2_build.log 2>&1 && build=pass
GOFLAGS=-mod=readonly go test -vet=off -count=1 $(go list ./... 2>/dev/null | grep -v '/out') > /tmp/c2_suite.log 2>&1 && suite=pass
( timeout 900 bash $mut/demo.sh $wt ) > /tmp/c2_mut.log 2>&1 || mut_demo=fail
git checkout -q -- .
echo "{\"mutant\":\"$mut\",\"demo_on_clean_tree\":\"$clean_demo\",\"build_with_patch\":\"$build\",\"suite_with_patch\":\"$suite\",\"demo_with_patch\":\"$mut_demo\"}"
