#!/bin/bash
# Behaviour-preserving edits on a scratch copy of /repo: every check must stay silent (exit 0).
set -u
D=$(mktemp -d /tmp/sil.XXXXXX)
rsync -a --exclude .git /repo/ $D/repo/
mkdir -p $D/v && cp /verif/KNOWN_FINDINGS.json $D/v/
cd $D/repo
# 1. rename locals in hand-written code
sed -i 's/\biNdEx\b/pos/g; s/\bbase\b/start/g; s/\bwireType\b/wt/g' runtime/runtime.go
sed -i 's/\bt2\b/res/g' support/timepb/cmp.go
sed -i 's/\bpackedMsg\b/msg/g; s/\bmsgDesc\b/found/g' anyutil/any.go
# 2. equivalent form of the type URL
python3 - <<'PY'
p='anyutil/any.go'
s=open(p).read()
old='dst.TypeUrl = "/" + string(src.ProtoReflect().Descriptor().FullName())'
assert old in s
s=s.replace(old,'dst.TypeUrl = fmt.Sprintf("/%s", src.ProtoReflect().Descriptor().FullName())')
open(p,'w').write(s)
PY
# 3. rename locals emitted by the templates (regenerated code changes, checked-in code does not)
sed -i 's/MaRsHaLmAp/emitEntry/g; s/keysFor/sortedKeysOf/g; s/pksize/packedBytes/g' features/fastreflection/proto_marshal.go
sed -i 's/SiZeMaP/sizeEntry/g; s/sortme/keys/g; s/mapEntrySize/entryLen/g' features/fastreflection/proto_size.go
sed -i 's/skippy/recLen/g; s/entryPreIndex/entryStart/g; s/mapkey/theKey/g; s/mapvalue/theValue/g; s/postIndex/end/g' features/fastreflection/proto_unmarshal.go
# 4. rename locals and reorder independent arms in checked-in generated code
sed -i 's/\bvalueUnwrapped\b/vu/g; s/\bconcreteValue\b/cv/g; s/\bconcreteKey\b/ck/g; s/\bkeyUnwrapped\b/ku/g; s/keysForMAP/ks/g; s/\bskippy\b/n2/g' testpb/1.pulsar.go
python3 - <<'PY'
p='testpb/1.pulsar.go'
s=open(p).read()
a='''	case "A.enum":
		return x.Enum != 0
'''
b='''	case "A.some_boolean":
		return x.SomeBoolean != false
'''
assert a+b in s
s=s.replace(a+b,b+"	// reordered\n"+a)
# reorder two independent blocks of Range
r1='''	if x.Enum != 0 {
		value := protoreflect.ValueOfEnum((protoreflect.EnumNumber)(x.Enum))
		if !f(fd_A_enum, value) {
			return
		}
	}
'''
r2='''	if x.SomeBoolean != false {
		value := protoreflect.ValueOfBool(x.SomeBoolean)
		if !f(fd_A_some_boolean, value) {
			return
		}
	}
'''
assert r1+r2 in s
s=s.replace(r1+r2,r2+r1)
open(p,'w').write(s)
PY
gofmt -l testpb runtime anyutil support >/dev/null
go build ./... || { echo "SILENCE FIXTURE DOES NOT BUILD"; rm -rf $D; exit 2; }
go test -vet=off -count=1 ./... 2>&1 | grep -v "no test files" | grep -v "^ok" 
rc=0
for p in C01 C02 C03 C04 C05 C06 C07 C08 C09 C10 C11 C12 C13 C14 C15 C16 C17 C18 C19; do
  out=$(VERIF_REPO=$D/repo VERIF_DIR=$D/v ${PULSARCHECK:-/verif/bin/pulsarcheck} -property $p 2>&1); r=$?
  if [ $r -ne 0 ]; then rc=1; echo "FALSE ALARM $p"; echo "$out" | grep -v "^VIOLATION" | head -4 | cut -c1-500; else echo "$p silent"; fi
done
rm -rf $D
exit $rc
