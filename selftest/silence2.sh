#!/bin/bash
# Second set of behaviour-preserving, maintainer-style edits on a scratch copy of /repo: every check must stay silent.
set -u
export GOFLAGS=-mod=mod GOPROXY=off GOSUMDB=off GOTOOLCHAIN=local; unset GOWORK
D=$(mktemp -d /tmp/sil2.XXXXXX)
rsync -a --exclude .git /repo/ $D/repo/
mkdir -p $D/v && cp /verif/KNOWN_FINDINGS.json $D/v/
cd $D/repo
python3 - <<'PY'
import re
def edit(p, pairs):
    s=open(p).read()
    for a,b in pairs:
        assert a in s, (p,a)
        s=s.replace(a,b)
    open(p,'w').write(s)
# --- timepb: Compare as a switch ladder, overflowPanic as one condition, Add with two separate ifs, new messages
edit('support/timepb/cmp.go', [
('''	if t1.Seconds == t2.Seconds && t1.Nanos == t2.Nanos {
		return 0
	}
	if t1.Seconds < t2.Seconds || t1.Seconds == t2.Seconds && t1.Nanos < t2.Nanos {
		return -1
	}
	return 1
''','''	switch {
	case t1.Seconds < t2.Seconds:
		return -1
	case t1.Seconds > t2.Seconds:
		return 1
	case t1.Nanos < t2.Nanos:
		return -1
	case t1.Nanos > t2.Nanos:
		return 1
	}
	return 0
'''),
('''	if negative {
		if cmp < 0 {
			panic("time overflow")
		}
	} else {
		if cmp > 0 {
			panic("time overflow")
		}
	}
''','''	if negative && cmp < 0 || !negative && cmp > 0 {
		panic("timepb: timestamp overflow")
	}
'''),
('''	} else if t2.Nanos < 0 {
		t2.Nanos += second
		t2.Seconds--
	}
''','''	}
	if t2.Nanos < 0 {
		t2.Nanos += second
		t2.Seconds--
	}
'''),
('const second = int32(time.Second)','// nanoseconds per second\nconst second int32 = 1000000000'),
])
# --- runtime: messages, a new helper, named result used, doc comments
edit('runtime/runtime.go', [
('fmt.Errorf("proto: integer overflow")','fmt.Errorf("pulsar: varint overflows 64 bits")'),
('fmt.Errorf("proto: unexpected end of group")','fmt.Errorf("pulsar: unexpected end of group")'),
('''func Sov(x uint64) (n int) {
	return (bits.Len64(x|1) + 6) / 7
}''','''// SovInt is Sov for non-negative ints.
func SovInt(x int) int { return Sov(uint64(x)) }

// Sov returns the number of bytes of the varint encoding of x.
func Sov(x uint64) (n int) {
	n = (bits.Len64(x|1) + 6) / 7
	return n
}'''),
('''	offset -= Sov(v)
	base := offset''','''	n := Sov(v)
	offset -= n
	base := offset'''),
])
# --- anyutil: early nil-destination error, different messages, url local
edit('anyutil/any.go', [
('''	b, err := opts.Marshal(src)
	if err != nil {
		return err
	}
''','''	if dst == nil {
		return protoimpl.X.NewError("invalid nil destination")
	}
	b, err := opts.Marshal(src)
	if err != nil {
		return fmt.Errorf("anyutil: %w", err)
	}
'''),
('"cannot unmarshal msg %s: %w"','"anyutil: cannot unmarshal %s: %w"'),
('"%s is not a message type"','"anyutil: %s does not name a message"'),
])
# --- rapidproto: other draw labels
s=open('rapidproto/rapidproto.go').read()
s=s.replace('"gen-%s"','"set-%s"')
open('rapidproto/rapidproto.go','w').write(s)
# --- templates: emit extra comments and blank lines, reorder helper declarations
edit('features/fastreflection/proto_marshal.go', [
('	// oneofs MUST be marshalled first!\n','	// oneofs MUST be marshalled first!\n	g.P("// oneof members")\n	g.P()\n'),
])
edit('features/fastreflection/proto_size.go', [
('func (g *fastGenerator) genSizeMethod() {\n','func (g *fastGenerator) genSizeMethod() {\n	g.P("// size of the encoded message")\n'),
])
PY
# move a function to a new file of the same package
python3 - <<'PY'
s=open('support/timepb/cmp.go').read()
i=s.index('// DurationIsNegative returns'); j=s.index('// AddStd returns')
fn=s[i:j]
s=s[:i]+s[j:]
open('support/timepb/cmp.go','w').write(s)
open('support/timepb/duration.go','w').write('package timepb\n\nimport (\n\tdurpb "google.golang.org/protobuf/types/known/durationpb"\n)\n\n'+fn)
PY
# reformat and comment the schema sources (no change of meaning)
sed -i 's/  bool some_boolean = 2;/  \/\/ a flag\n  bool   some_boolean   =   2 ; \/* trailing *\//' testpb/1.proto
sed -i 's/^message B {/\/\/ B is small.\nmessage B\n{/' testpb/1.proto
gofmt -l . > /dev/null
go build ./... || { echo "SILENCE2 FIXTURE DOES NOT BUILD"; rm -rf $D; exit 2; }
go vet ./support/... ./runtime/... ./anyutil/... >/dev/null 2>&1 || true
go test -vet=off -count=1 ./... 2>&1 | grep -v "no test files" | grep -v "^ok"
rc=0
for p in C01 C02 C03 C04 C05 C06 C07 C08 C09 C10 C11 C12 C13 C14 C15 C16 C17 C18 C19; do
  out=$(VERIF_REPO=$D/repo VERIF_DIR=$D/v ${PULSARCHECK:-/verif/bin/pulsarcheck} -property $p 2>&1); r=$?
  if [ $r -ne 0 ]; then rc=1; echo "FALSE ALARM $p"; echo "$out" | grep -v "^VIOLATION" | head -${LINES_MAX:-4} | cut -c1-500; else echo "$p silent"; fi
done
rm -rf $D
exit $rc
