#!/bin/bash
# usage: confirm.sh <worktree> <mutant-dir-relative-to-worktree> '<demo command run at worktree root>'
# Confirms: demo passes on clean tree; with the patch the tree builds, the pinned suite passes, the demo fails.
export GOFLAGS=-mod=mod GOPROXY=off GOSUMDB=off GOTOOLCHAIN=local; unset GOWORK
wt=$1; mut=$2; demo=$3
cd $wt || exit 9
git checkout -q -- . 2>/dev/null
clean_demo=fail; build=fail; suite=fail; mut_demo=pass
( eval "$demo" ) > /tmp/confirm_clean.log 2>&1 && clean_demo=pass
git checkout -q -- . ; 
git apply $mut/patch.diff || { echo "{\"mutant\":\"$mut\",\"error\":\"patch does not apply\"}"; exit 1; }
go build ./... > /tmp/confirm_build.log 2>&1 && build=pass
GOFLAGS=-mod=readonly go test -vet=off -count=1 $(go list ./... | grep -v '/out') > /tmp/confirm_suite.log 2>&1 && suite=pass
( eval "$demo" ) > /tmp/confirm_mut.log 2>&1 || mut_demo=fail
git checkout -q -- .
git status --short | grep -v '^?? out/' | head -3
echo "{\"mutant\":\"$mut\",\"demo_on_clean_tree\":\"$clean_demo\",\"build_with_patch\":\"$build\",\"suite_with_patch\":\"$suite\",\"demo_with_patch\":\"$mut_demo\"}"
tail -3 /tmp/confirm_mut.log | cut -c1-200
