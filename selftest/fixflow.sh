#!/bin/bash
# Maintenance helper for "fix:" commits that change a template: regenerates the six checked-in files
# before (from git HEAD of /repo, via a scratch worktree) and after (working tree) the template edit
# and applies the difference to the checked-in files. Usage: fixflow.sh   (run after editing templates in /repo)
set -e
export GOFLAGS=-mod=mod GOPROXY=off GOSUMDB=off GOTOOLCHAIN=local; unset GOWORK
rm -rf /tmp/ff && mkdir -p /tmp/ff
git -C /repo worktree add -q --detach /tmp/ff/base HEAD
/verif/bin/regen -repo /tmp/ff/base -out /tmp/ff/r0 > /dev/null
/verif/bin/regen -repo /repo -out /tmp/ff/r1 > /dev/null
cd /tmp/ff
for f in testpb/1.pulsar.go testpb/2.pulsar.go testpb/3.pulsar.go internal/testprotos/test3/test.pulsar.go internal/testprotos/test3/test_import.pulsar.go internal/testprotos/test3/test_nesting.pulsar.go; do
  if ! diff -q r0/$f r1/$f > /dev/null; then
    diff -u r0/$f r1/$f > patch.tmp || true
    patch -s /repo/$f < patch.tmp && echo "patched $f ($(grep -c '^[+-][^+-]' patch.tmp) lines)"
  fi
done
git -C /repo worktree remove --force /tmp/ff/base
cd /repo && gofmt -l testpb internal/testprotos features/fastreflection runtime | grep -v "features/protoc" || true
# consistency: regenerated == checked-in modulo comments
/verif/bin/regen -repo /repo -out /tmp/ff/r2 > /dev/null
for f in testpb/1.pulsar.go internal/testprotos/test3/test.pulsar.go internal/testprotos/test3/test_nesting.pulsar.go; do echo "$f vs regenerated: $(diff /repo/$f /tmp/ff/r2/$f | grep '^[<>]' | grep -vc '^[<>] *//') non-comment differing lines"; done
go build ./... && go test -vet=off -count=1 ./... 2>&1 | grep -v "no test files"
rm -rf /tmp/ff
