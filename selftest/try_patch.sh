#!/bin/bash
# usage: try_patch.sh <patch.diff> <property[,property..]>
# Applies a patch to a scratch copy of /repo and runs the named checks against it (the real /repo is untouched).
set -u
patch=$1; props=$2
D=$(mktemp -d /tmp/tryp.XXXXXX)
rsync -a --exclude .git /repo/ $D/repo/
mkdir -p $D/v && cp /verif/KNOWN_FINDINGS.json $D/v/
(cd $D/repo && git init -q . 2>/dev/null; git apply --whitespace=nowarn "$patch") || { echo "PATCH DOES NOT APPLY"; rm -rf $D; exit 3; }
(cd $D/repo && go build ./... 2>&1 | head -5)
rc=0
for p in ${props//,/ }; do
  out=$(VERIF_REPO=$D/repo VERIF_DIR=$D/v ${PULSARCHECK:-/verif/bin/pulsarcheck} -property $p 2>&1); r=$?
  echo "$out" | grep -v "^VIOLATION\|^KNOWN-FINDING" | head -${LINES_MAX:-3} | cut -c1-${WIDTH:-420}
  echo "== $p exit=$r"
  [ $r -ne 0 ] && rc=1
done
rm -rf $D
exit $rc
