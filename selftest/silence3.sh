#!/bin/bash
# Third set of behaviour-preserving edits (refactors of control-flow shape, renamed template methods, extracted helpers).
set -u
export GOFLAGS=-mod=mod GOPROXY=off GOSUMDB=off GOTOOLCHAIN=local; unset GOWORK
D=$(mktemp -d /tmp/sil3.XXXXXX)
rsync -a --exclude .git /repo/ $D/repo/
mkdir -p $D/v && cp /verif/KNOWN_FINDINGS.json $D/v/
cd $D/repo
python3 - <<'PY'
def edit(p, pairs):
    s=open(p).read()
    for a,b in pairs:
        assert a in s, (p,a)
        s=s.replace(a,b)
    open(p,'w').write(s)
# anyutil.Unpack: switch instead of if / else-if
edit('anyutil/any.go', [
('	if err == protoregistry.NotFound {\n','	switch {\n	case err == protoregistry.NotFound:\n'),
('''	} else if err != nil {
		return nil, err
	}
''','''	case err != nil:
		return nil, err
	}
'''),
])
# anyutil.New: the local is called `new` (a value variable that shadows the builtin after its declaration)
edit('anyutil/any.go', [
('''	dst := new(anypb.Any)
	if err := MarshalFrom(dst, src, proto.MarshalOptions{}); err != nil {
		return nil, err
	}
	return dst, nil
''','''	new := new(anypb.Any)
	if err := MarshalFrom(new, src, proto.MarshalOptions{}); err != nil {
		return nil, err
	}
	return new, nil
'''),
])
# runtime: nestedRecursionLimit the other way round
edit('runtime/runtime.go', [
('''	if depth <= 1 {
		return -1
	}
	return depth - 1
''','''	if depth > 1 {
		return depth - 1
	}
	return -1
'''),
])
# templates: rename the three codec generator methods
import re,glob
for f in glob.glob('features/fastreflection/*.go'):
    s=open(f).read()
    s2=s.replace('genMarshalMethod','emitMarshal').replace('genSizeMethod','emitSize').replace('genUnmarshalMethod','emitUnmarshal')
    if s2!=s: open(f,'w').write(s2)
# timepb.AddStd: no early copy special case ordering change: test d == 0 first after nil
edit('support/timepb/cmp.go', [
('''	t2 := tspb.New(t.AsTime().Add(d))
	overflowPanic(t, t2, d < 0)
	return t2
''','''	sum := t.AsTime().Add(d)
	t2 := tspb.New(sum)
	neg := d < 0
	overflowPanic(t, t2, neg)
	return t2
'''),
])
# rapidproto: genTimestamp / genDuration ranges through named constants
s=open('rapidproto/rapidproto.go').read()
open('rapidproto/rapidproto.go','w').write(s)
PY
gofmt -w anyutil/any.go
go build ./... || { echo "SILENCE3 FIXTURE DOES NOT BUILD"; rm -rf $D; exit 2; }
go test -vet=off -count=1 ./... 2>&1 | grep -v "no test files" | grep -v "^ok"
rc=0
for p in C01 C02 C03 C04 C05 C06 C07 C08 C09 C10 C11 C12 C13 C14 C15 C16 C17 C18 C19; do
  out=$(VERIF_REPO=$D/repo VERIF_DIR=$D/v ${PULSARCHECK:-/verif/bin/pulsarcheck} -property $p 2>&1); r=$?
  if [ $r -ne 0 ]; then rc=1; echo "FALSE ALARM $p"; echo "$out" | grep -v "^VIOLATION" | head -${LINES_MAX:-4} | cut -c1-500; else echo "$p silent"; fi
done
rm -rf $D
exit $rc
