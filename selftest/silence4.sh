#!/bin/bash
# Fourth set of behaviour-preserving edits: refactors of the TEMPLATES that leave the generated text unchanged
# (extracted helpers with open braces, Sprintf-built lines, switch instead of if-chains, renamed Go locals).
set -u
export GOFLAGS=-mod=mod GOPROXY=off GOSUMDB=off GOTOOLCHAIN=local; unset GOWORK
D=$(mktemp -d /tmp/sil4.XXXXXX)
rsync -a --exclude .git /repo/ $D/repo/
mkdir -p $D/v && cp /verif/KNOWN_FINDINGS.json $D/v/
cd $D/repo
python3 - <<'PY'
def edit(p, pairs):
    s=open(p).read()
    for a,b in pairs:
        assert a in s, (p,a)
        s=s.replace(a,b,1)
    open(p,'w').write(s)
# 1. extract the unmarshal prologue (opens the closure brace and leaves it open) into a helper
edit('features/fastreflection/proto_unmarshal.go', [
('''	g.P(`unmarshal := func(input `, protoifacePkg.Ident("UnmarshalInput"), `) (`, protoifacePkg.Ident("UnmarshalOutput"), `, error) {`)
	g.P(`x := input.Message.Interface().(*`, g.message.GoIdent, `)`)
	g.P(`if x == nil {`)
	g.P(`return `, protoifacePkg.Ident("UnmarshalOutput"), ` {`)
	g.P("NoUnkeyedLiterals: input.NoUnkeyedLiterals,")
	g.P("Flags:               input.Flags,")
	g.P("}, nil")
	g.P("}")
''','''	g.unmarshalPrologue()
'''),
('''func (g *fastGenerator) genUnmarshalMethod() {
''','''// unmarshalPrologue opens the unmarshal closure and handles the nil receiver.
func (g *fastGenerator) unmarshalPrologue() {
	out := protoifacePkg.Ident("UnmarshalOutput")
	g.P(`unmarshal := func(input `, protoifacePkg.Ident("UnmarshalInput"), `) (`, out, `, error) {`)
	g.P(`x := input.Message.Interface().(*`, g.message.GoIdent, `)`)
	g.P(`if x == nil {`)
	g.P(`return `, out, ` {`)
	g.P("NoUnkeyedLiterals: input.NoUnkeyedLiterals,")
	g.P("Flags:               input.Flags,")
	g.P("}, nil")
	g.P("}")
}

func (g *fastGenerator) genUnmarshalMethod() {
'''),
# 2. a line built with Sprintf instead of P's argument list
('''	g.P(`if wireType == `, strconv.Itoa(int(protowire.EndGroupType)), ` {`)''','''	g.P(fmt.Sprintf("if wireType == %d {", int(protowire.EndGroupType)))'''),
# 3. renamed Go-level local
('	required := g.message.Desc.RequiredNumbers()','	requiredNums := g.message.Desc.RequiredNumbers()'),
])
s=open('features/fastreflection/proto_unmarshal.go').read()
i=s.index('func (g *fastGenerator) genUnmarshalMethod() {'); j=s.index('\nfunc ', i+10)
body=s[i:j].replace('required.Len()','requiredNums.Len()').replace(', true, required)',', true, requiredNums)').replace('(required)','(requiredNums)').replace(' required.',' requiredNums.').replace('range required','range requiredNums')
s=s[:i]+body+s[j:]
if '"fmt"' not in s.split(')')[0]:
    s=s.replace('import (','import (\n\t"fmt"',1)
open('features/fastreflection/proto_unmarshal.go','w').write(s)
PY
gofmt -l features > /dev/null
go build ./... || { echo "SILENCE4 FIXTURE DOES NOT BUILD"; rm -rf $D; exit 2; }
go test -vet=off -count=1 ./... 2>&1 | grep -v "no test files" | grep -v "^ok"
rc=0
for p in C01 C03 C06 C07 C12 C13 C14; do
  out=$(VERIF_REPO=$D/repo VERIF_DIR=$D/v ${PULSARCHECK:-/verif/bin/pulsarcheck} -property $p 2>&1); r=$?
  if [ $r -ne 0 ]; then rc=1; echo "FALSE ALARM $p"; echo "$out" | grep -v "^VIOLATION" | head -${LINES_MAX:-4} | cut -c1-500; else echo "$p silent"; fi
done
rm -rf $D
exit $rc
