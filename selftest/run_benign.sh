#!/bin/bash
# Applies every behaviour-preserving change under /verif/benign (produced by independent sub-agents asked for
# realistic refactors / clean-ups / extensions that keep all 19 properties) to a scratch copy of /repo and requires all
# 19 checks to stay silent. usage: run_benign.sh [id ...]   -> writes /verif/selftest/BENIGN_RESULTS.md
cd /verif/benign || exit 1
ids=${@:-$(ls -d G*-* | sort -V)}
out=/verif/selftest/BENIGN_RESULTS.md
{ echo "# Behaviour-preserving changes vs checks"; echo; echo "| change | summary | verdict |"; echo "|---|---|---|"; } > $out
bad=0
for id in $ids; do
  res=$(LINES_MAX=1 WIDTH=200 /verif/selftest/try_benign.sh /verif/benign/$id/patch.diff 2>&1 | tail -1)
  sum=$(head -1 /verif/benign/$id/README.md | sed 's/^Benign: //' | cut -c1-140 | tr '|' '/')
  if [ "$res" = "all 19 silent" ]; then v="silent"; else v="ALARM: $(echo "$res" | cut -c1-160 | tr '|' '/')"; bad=$((bad+1)); fi
  echo "| $id | $sum | $v |" >> $out
  echo "$id $v" | cut -c1-120
done
echo >> $out; echo "false alarms: $bad" >> $out; echo "false alarms: $bad"
