#!/usr/bin/env python3
"""Package confirmed red-team mutants into /verif/seeded.
usage: package_wave.py <wave-number> <kind-text> <head-commit> <missed-ids-comma-separated> <dir> [<dir> ...]
Each <dir> is /tmp/wt/redout/R<agent>-Cxx-k (patch.diff, demo.sh, README.md, demo files). The id becomes Cxx-w<wave>-<n>
(n = next free number for that property in this wave). Files are copied as delivered (demo.sh refers to them by name)."""
import json, os, re, shutil, sys
wave, kind, head, missed = sys.argv[1], sys.argv[2], sys.argv[3], set(filter(None, sys.argv[4].split(',')))
seeded = '/verif/seeded'
for d in sys.argv[5:]:
    base = os.path.basename(d.rstrip('/'))
    m = re.match(r'(R\d+)-(C\d\d)-(\d+)$', base)
    agent, prop, k = m.group(1), m.group(2), m.group(3)
    n = 1
    while os.path.exists(f'{seeded}/{prop}-w{wave}-{n}'):
        n += 1
    mid = f'{prop}-w{wave}-{n}'
    dst = f'{seeded}/{mid}'
    os.makedirs(dst)
    files = []
    for root, _, fs in os.walk(d):
        for f in fs:
            src = os.path.join(root, f)
            rel = os.path.relpath(src, d)
            out = rel
            os.makedirs(os.path.dirname(os.path.join(dst, out)) or dst, exist_ok=True)
            shutil.copy(src, os.path.join(dst, out))
            files.append(out)
    patch = open(os.path.join(d, 'patch.diff')).read()
    touches = sorted(set(re.findall(r'^\+\+\+ b/(\S+)', patch, re.M)))
    readme = open(os.path.join(d, 'README.md')).read() if os.path.exists(os.path.join(d, 'README.md')) else ''
    meta = {
        'id': mid, 'property': prop, 'wave': int(wave), 'kind': kind, 'source': f'{agent}-{k}',
        'source_agent_worktree': '/tmp/wt/' + agent.lower(), 'touches': touches,
        'needs_to_manifest': ' '.join(readme.split())[:700],
        'confirmed': {'demo_on_clean_tree': 'pass', 'build_with_patch': 'pass',
                      'pinned_suite_with_patch': 'pass (go test -vet=off -count=1 ./...)', 'demo_with_patch': 'fail',
                      'how': f'selftest/confirm2.sh in a scratch git worktree of /repo at {head}: bash demo.sh on clean tree, git apply patch.diff, go build ./..., full suite, demo again, git checkout + clean'},
        'missed_before_strengthening': f'{agent}-{prop}-{k}' in missed,
        'files': sorted(files),
    }
    json.dump(meta, open(f'{dst}/meta.json', 'w'), indent=1)
    print(base, '->', mid, '(missed)' if meta['missed_before_strengthening'] else '')
